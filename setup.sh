#!/bin/sh
# Builds the gosym engine offline from files on disk only.
set -e
cd "$(dirname "$0")/engine"
export GOFLAGS=-mod=mod GOPROXY=off GOSUMDB=off GOTOOLCHAIN=local
mkdir -p ../bin ../out ../evidence
go build -o ../bin/gosym ./cmd/gosym
echo "gosym built"
