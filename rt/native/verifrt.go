// Package verifrt — NATIVE twin of the harness runtime API, used to replay a
// solver model against the natively compiled code under test.  Inputs are
// read from the JSON file named by $VERIF_CEX ({"model": {name: value},
// "thorough": bool}); Assert records the first falsified label and stops the
// harness.  The symbolic-mode twin is /verif/rt/sym/verifrt.go.
package verifrt

import (
	"encoding/json"
	"fmt"
	"os"
	"strings"
	"sync"
	"time"
)

type cexFile struct {
	Model    map[string]uint64 `json:"model"`
	Thorough bool              `json:"thorough"`
	Harness  string            `json:"harness"`
}

type stopReplay struct{ why string }

var (
	mu       sync.Mutex
	cex      cexFile
	names    = map[string]int{}
	sig      string
	notes    []string
	observed []string
	clock    int64 = 1_600_000_000_000_000_000
	onSleep  func(d time.Duration)
	// result
	violatedLabel string
	violatedSig   string
	assumeFailed  bool
	reached       []string
)

func load() {
	path := os.Getenv("VERIF_CEX")
	if path == "" {
		return
	}
	b, err := os.ReadFile(path)
	if err != nil {
		panic("verifrt: cannot read VERIF_CEX: " + err.Error())
	}
	if err := json.Unmarshal(b, &cex); err != nil {
		panic("verifrt: bad VERIF_CEX: " + err.Error())
	}
}

func unique(name string) string {
	n := names[name]
	names[name] = n + 1
	if n == 0 {
		return name
	}
	return fmt.Sprintf("%s#%d", name, n)
}

func val(name string) uint64 { return cex.Model[unique(name)] }

func Bool(name string) bool   { return val(name) != 0 }
func U8(name string) uint8    { return uint8(val(name)) }
func U16(name string) uint16  { return uint16(val(name)) }
func U32(name string) uint32  { return uint32(val(name)) }
func U64(name string) uint64  { return val(name) }
func I32(name string) int32   { return int32(uint32(val(name))) }
func I64(name string) int64   { return int64(val(name)) }
func Int(name string) int     { return int(int64(val(name))) }
func Symbolic() bool          { return false }
func Thorough() bool          { return cex.Thorough }
func SymbolicFormat(on bool)  {}
func SetStepBudget(n int)     {}
func DropSpawned()            {}
func PanicSite() string       { return "" }
func Goroutines()             {}
func Yield()                  { time.Sleep(20 * time.Millisecond) }
func Quiesce()                { time.Sleep(30 * time.Millisecond) }
func Spawned() int            { return 0 }
func AllowUnbuffered(ch interface{}) {}
func SetDialConn(conn interface{})   {}

func IntRange(name string, lo, hi int) int {
	v := int(int64(val(name)))
	if v < lo || v > hi {
		assumeFailed = true
		panic(stopReplay{"IntRange " + name + " out of range"})
	}
	return v
}

func Choose(name string, n int) int {
	v := int(val(name))
	if v < 0 || v >= n {
		assumeFailed = true
		panic(stopReplay{"Choose " + name + " out of range"})
	}
	return v
}

func Bytes(name string, n int) []byte {
	out := make([]byte, n)
	for j := range out {
		out[j] = uint8(val(fmt.Sprintf("%s[%d]", name, j)))
	}
	return out
}

func Assume(c bool) {
	if !c {
		assumeFailed = true
		panic(stopReplay{"assumption false"})
	}
}

func Assert(c bool, label string) {
	if !c {
		violatedLabel = label
		violatedSig = sig
		panic(stopReplay{"assert " + label})
	}
}

func Reach(label string) { reached = append(reached, label) }

func Sig(parts ...interface{}) {
	ss := make([]string, len(parts))
	for i, p := range parts {
		ss[i] = fmt.Sprint(p)
	}
	sig = strings.Join(ss, " ")
}

func Note(format string, args ...interface{}) {
	if len(notes) < 64 {
		notes = append(notes, fmt.Sprintf(format, args...))
	}
}

func Observe(parts ...interface{}) {
	ss := make([]string, len(parts))
	for i, p := range parts {
		ss[i] = fmt.Sprint(p)
	}
	observed = append(observed, strings.Join(ss, " "))
}

func And(a, b bool) bool     { return a && b }
func Or(a, b bool) bool      { return a || b }
func Not(a bool) bool        { return !a }
func Implies(a, b bool) bool { return !a || b }
func IteInt(c bool, a, b int) int {
	if c {
		return a
	}
	return b
}
func IteI64(c bool, a, b int64) int64 {
	if c {
		return a
	}
	return b
}
func IteU64(c bool, a, b uint64) uint64 {
	if c {
		return a
	}
	return b
}
func BytesEq(a, b []byte) bool { return string(a) == string(b) }

// Catch runs f and reports whether the code under test panicked.
func Catch(f func()) (panicked bool, what string) {
	defer func() {
		if r := recover(); r != nil {
			if s, ok := r.(stopReplay); ok {
				panic(s)
			}
			panicked = true
			what = fmt.Sprint(r)
		}
	}()
	f()
	return false, ""
}

// RunUntilBlocked runs f in its own goroutine and treats "not finished after
// the quiescence interval" as blocked (the goroutine is then abandoned).
func RunUntilBlocked(f func()) (blocked bool) {
	done := make(chan interface{}, 1)
	go func() {
		defer func() { done <- recover() }()
		f()
	}()
	select {
	case r := <-done:
		if r != nil {
			panic(r)
		}
		return false
	case <-time.After(300 * time.Millisecond):
		return true
	}
}

func OnBlocked(f func() bool)         {}
func RunSpawned(k int) (blocked bool) { return false }
func OnSleep(f func(d time.Duration)) { onSleep = f }

func AllocObligation(label string, base, perByte, inputLen int) {
	allocLabel, allocLimit = label, uint64(base+perByte*inputLen)
}

var (
	allocLabel string
	allocLimit uint64
)

// Virtual clock (imposed on the code under test through the regenerated
// time seam, see DESIGN.md §2.8).
// RealTime switches the seam to the wall clock (harnesses that run the real goroutine structure
// natively): Sleep really sleeps, Now is the wall clock plus whatever Advance added.
func RealTime() {
	clockMu.Lock()
	realTime, realBase = true, time.Now()
	clockMu.Unlock()
}

var (
	clockMu  sync.Mutex
	realTime bool
	realBase time.Time
	realSkew int64 // added by Advance in real-time mode
)

func Advance(d time.Duration) {
	clockMu.Lock()
	defer clockMu.Unlock()
	if realTime {
		realSkew += int64(d)
		return
	}
	clock += int64(d)
}
func NowNanos() int64 {
	clockMu.Lock()
	defer clockMu.Unlock()
	if realTime {
		return clock + int64(time.Since(realBase)) + realSkew
	}
	return clock
}
func Now() time.Time                   { return time.Unix(0, NowNanos()) }
func Since(t time.Time) time.Duration { return Now().Sub(t) }
func Sleep(d time.Duration) {
	clockMu.Lock()
	rt := realTime
	if !rt && d > 0 {
		clock += int64(d)
	}
	clockMu.Unlock()
	if rt {
		time.Sleep(d)
		return
	}
	if onSleep != nil {
		onSleep(d)
	}
}
func After(d time.Duration) <-chan time.Time {
	clockMu.Lock()
	rt := realTime
	clockMu.Unlock()
	if rt {
		return time.After(d)
	}
	ch := make(chan time.Time, 1)
	clockMu.Lock()
	clock += int64(d)
	clockMu.Unlock()
	ch <- Now()
	return ch
}

// TB is the subset of *testing.T used by Replay.
type TB interface {
	Logf(format string, args ...interface{})
}

// Replay runs harness f on the model in $VERIF_CEX and prints the outcome in
// a line the engine parses.
func Replay(t TB, name string, f func()) {
	load()
	if cex.Harness != "" && cex.Harness != name {
		return
	}
	var memBefore memSample
	memBefore = sampleMem()
	outcome := "pass"
	detail := ""
	func() {
		defer func() {
			if r := recover(); r != nil {
				if s, ok := r.(stopReplay); ok {
					if assumeFailed {
						outcome = "assume-false"
						detail = s.why
					} else {
						outcome = "violated"
					}
					return
				}
				outcome = "panic"
				detail = fmt.Sprint(r)
			}
		}()
		f()
	}()
	memAfter := sampleMem()
	if outcome == "pass" && allocLabel != "" && memAfter.total-memBefore.total > allocLimit {
		outcome = "violated"
		violatedLabel = allocLabel
		detail = fmt.Sprintf("allocated %d bytes", memAfter.total-memBefore.total)
	}
	fmt.Printf("VERIF-REPLAY harness=%s result=%s label=%q sig=%q detail=%q\n", name, outcome, violatedLabel, violatedSig, detail)
	for _, n := range notes {
		fmt.Printf("VERIF-NOTE %s\n", n)
	}
	for _, o := range observed {
		fmt.Printf("VERIF-OBSERVE %s\n", o)
	}
}
