package verifrt

import "runtime"

type memSample struct{ total uint64 }

func sampleMem() memSample {
	var ms runtime.MemStats
	runtime.ReadMemStats(&ms)
	return memSample{ms.TotalAlloc}
}
