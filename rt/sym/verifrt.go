// Package verifrt is the harness runtime API.  This is the SYMBOLIC-MODE
// file: every function here is replaced by an engine intrinsic (see
// /verif/engine/interp/intrinsics.go); the bodies only exist so that the
// package type-checks.  The native twin used for counterexample replay is
// /verif/rt/native/verifrt.go.  Both enter /repo only through overlays.
package verifrt

import "time"

func Bool(name string) bool                { panic("intrinsic") }
func U8(name string) uint8                 { panic("intrinsic") }
func U16(name string) uint16               { panic("intrinsic") }
func U32(name string) uint32               { panic("intrinsic") }
func U64(name string) uint64               { panic("intrinsic") }
func I32(name string) int32                { panic("intrinsic") }
func I64(name string) int64                { panic("intrinsic") }
func Int(name string) int                  { panic("intrinsic") }
func IntRange(name string, lo, hi int) int { panic("intrinsic") }
func Choose(name string, n int) int        { panic("intrinsic") }
func Bytes(name string, n int) []byte      { panic("intrinsic") }

// Symbolic reports whether the harness runs inside the symbolic engine.
func Symbolic() bool { panic("intrinsic") }

// Thorough reports the tier.
func Thorough() bool { panic("intrinsic") }

func Assume(c bool)                           { panic("intrinsic") }
func Assert(c bool, label string)             { panic("intrinsic") }
func Reach(label string)                      { panic("intrinsic") }
func Sig(parts ...interface{})                { panic("intrinsic") }

// PanicSite names the function in which the panic most recently caught by
// Catch was raised (engine only; "" natively).
func PanicSite() string { panic("intrinsic") }

func Note(format string, args ...interface{}) { panic("intrinsic") }
func Observe(parts ...interface{})            { panic("intrinsic") }

// Non-forking boolean connectives (plain && / || compile to branches).
func And(a, b bool) bool                { panic("intrinsic") }
func Or(a, b bool) bool                 { panic("intrinsic") }
func Not(a bool) bool                   { panic("intrinsic") }
func Implies(a, b bool) bool            { panic("intrinsic") }
func IteInt(c bool, a, b int) int       { panic("intrinsic") }
func IteI64(c bool, a, b int64) int64   { panic("intrinsic") }
func IteU64(c bool, a, b uint64) uint64 { panic("intrinsic") }
func BytesEq(a, b []byte) bool          { panic("intrinsic") }

// Catch runs f and reports whether the code under test panicked.
func Catch(f func()) (panicked bool, what string) { panic("intrinsic") }

// RunUntilBlocked runs f as a sequential unit; true if it ended by blocking.
func RunUntilBlocked(f func()) (blocked bool)                   { panic("intrinsic") }
func OnBlocked(f func() bool)                                   { panic("intrinsic") }
func OnSleep(f func(d time.Duration))                           { panic("intrinsic") }
func SetStepBudget(n int)                                       { panic("intrinsic") }
func AllocObligation(label string, base, perByte, inputLen int) { panic("intrinsic") }
func AllowUnbuffered(ch interface{})                            { panic("intrinsic") }

// Goroutines switches the engine to cooperative goroutines: every go statement
// becomes a coroutine, scheduled run-to-block round-robin (one interleaving);
// virtual time moves only when every coroutine is blocked.  Natively a no-op.
func Goroutines() { panic("intrinsic") }

// RealTime (native only) switches the regenerated time seam to the wall clock for harnesses that
// run the real goroutine structure; inside the engine time is virtual anyway.
func RealTime() { panic("intrinsic") }

// Quiesce lets the other goroutines run until all of them are blocked at the
// current virtual time (natively: a short real sleep).
func Quiesce() { panic("intrinsic") }

// Yield is an explicit preemption point: the other goroutines run (each until it blocks), then the
// caller continues (natively: a short real sleep).
func Yield() { panic("intrinsic") }

func Spawned() int                                              { panic("intrinsic") }
func RunSpawned(k int) (blocked bool)                           { panic("intrinsic") }
func DropSpawned()                                              { panic("intrinsic") }
func SymbolicFormat(on bool)                                    { panic("intrinsic") }

// SetDialConn makes net.Dialer.DialContext return conn (a net.Conn) inside
// the engine; natively harnesses dial a real loopback listener instead.
func SetDialConn(conn interface{}) { panic("intrinsic") }

// Virtual clock.
func Advance(d time.Duration) { panic("intrinsic") }
func NowNanos() int64         { panic("intrinsic") }
