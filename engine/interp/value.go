// Copyright 2013 The Go Authors. All rights reserved.
// Use of this source code is governed by a BSD-style
// license that can be found in the LICENSE file.

package interp

// Values
//
// All interpreter values are "boxed" in the empty interface, value.
// The range of possible dynamic types within value are:
//
// - bool
// - numbers (all built-in int/float/complex types are distinguished)
// - string
// - map[value]value --- maps for which  usesBuiltinMap(keyType)
//   *hashmap        --- maps for which !usesBuiltinMap(keyType)
// - chan value
// - []value --- slices
// - iface --- interfaces.
// - structure --- structs.  Fields are ordered and accessed by numeric indices.
// - array --- arrays.
// - *value --- pointers.  Careful: *value is a distinct type from *array etc.
// - *ssa.Function \
//   *ssa.Builtin   } --- functions.  A nil 'func' is always of type *ssa.Function.
//   *closure      /
// - tuple --- as returned by Return, Next, "value,ok" modes, etc.
// - iter --- iterators from 'range' over map or string.
// - bad --- a poison pill for locals that have gone out of scope.
// - rtype -- the interpreter's concrete implementation of reflect.Type
// - **deferred -- the address of a frame's defer stack for a Defer._Stack.
//
// Note that nil is not on this list.
//
// Pay close attention to whether or not the dynamic type is a pointer.
// The compiler cannot help you since value is an empty interface.

import (
	"bytes"
	"fmt"
	"go/types"

	"golang.org/x/tools/go/ssa"
)

type value interface{}

type tuple []value

type array []value

type iface struct {
	t types.Type // never an "untyped" type
	v value
}

type structure []value


type closure struct {
	Fn  *ssa.Function
	Env []value
}

type bad struct{}


// reflect.Value struct values don't have a fixed shape, since the
// payload can be a scalar or an aggregate depending on the instance.
// So store (and load) can't simply use recursion over the shape of the
// rhs value, or the lhs, to copy the value; we need the static type
// information.  (We can't make reflect.Value a new basic data type
// because its "structness" is exposed to Go programs.)

// load returns the value of type T in *addr.
func load(T types.Type, addr *value) value {
	if ps, isP := (*addr).(poison); isP {
		return ps
	}
	switch T := T.Underlying().(type) {
	case *types.Struct:
		v := (*addr).(structure)
		a := make(structure, len(v))
		for i := range a {
			a[i] = load(T.Field(i).Type(), &v[i])
		}
		return a
	case *types.Array:
		v := (*addr).(array)
		a := make(array, len(v))
		for i := range a {
			a[i] = load(T.Elem(), &v[i])
		}
		return a
	default:
		return *addr
	}
}

// store stores value v of type T into *addr.
func store(T types.Type, addr *value, v value) {
	switch T := T.Underlying().(type) {
	case *types.Struct:
		lhs := (*addr).(structure)
		rhs := v.(structure)
		for i := range lhs {
			store(T.Field(i).Type(), &lhs[i], rhs[i])
		}
	case *types.Array:
		lhs := (*addr).(array)
		rhs := v.(array)
		for i := range lhs {
			store(T.Elem(), &lhs[i], rhs[i])
		}
	default:
		*addr = v
	}
}

// Prints in the style of built-in println.
// (More or less; in gc println is actually a compiler intrinsic and
// can distinguish println(1) from println(interface{}(1)).)
func writeValue(buf *bytes.Buffer, v value) {
	switch v := v.(type) {
	case nil, bool, int, int8, int16, int32, int64, uint, uint8, uint16, uint32, uint64, uintptr, float32, float64, complex64, complex128, string:
		fmt.Fprintf(buf, "%v", v)

	case *omap:
		buf.WriteString("map[")
		if v != nil {
			sep := ""
			for _, e := range v.ents {
				if e.dead {
					continue
				}
				buf.WriteString(sep)
				sep = " "
				writeValue(buf, e.key)
				buf.WriteString(":")
				writeValue(buf, e.val)
			}
		}
		buf.WriteString("]")

	case *channel:
		fmt.Fprintf(buf, "%p", v) // (an address)

	case sv:
		buf.WriteString("<sym ")
		buf.WriteString(describe(v.t, 3))
		buf.WriteString(">")

	case *value:
		if v == nil {
			buf.WriteString("<nil>")
		} else {
			fmt.Fprintf(buf, "%p", v)
		}

	case iface:
		fmt.Fprintf(buf, "(%s, ", v.t)
		writeValue(buf, v.v)
		buf.WriteString(")")

	case structure:
		buf.WriteString("{")
		for i, e := range v {
			if i > 0 {
				buf.WriteString(" ")
			}
			writeValue(buf, e)
		}
		buf.WriteString("}")

	case array:
		buf.WriteString("[")
		for i, e := range v {
			if i > 0 {
				buf.WriteString(" ")
			}
			writeValue(buf, e)
		}
		buf.WriteString("]")

	case []value:
		buf.WriteString("[")
		for i, e := range v {
			if i > 0 {
				buf.WriteString(" ")
			}
			writeValue(buf, e)
		}
		buf.WriteString("]")

	case *ssa.Function, *ssa.Builtin, *closure:
		fmt.Fprintf(buf, "%p", v) // (an address)

	case tuple:
		// Unreachable in well-formed Go programs
		buf.WriteString("(")
		for i, e := range v {
			if i > 0 {
				buf.WriteString(", ")
			}
			writeValue(buf, e)
		}
		buf.WriteString(")")

	default:
		fmt.Fprintf(buf, "<%T>", v)
	}
}

// Implements printing of Go values in the style of built-in println.
func toString(v value) string {
	var b bytes.Buffer
	writeValue(&b, v)
	return b.String()
}

