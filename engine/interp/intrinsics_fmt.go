package interp

// fmt intrinsics: formatting is done natively on converted values.  Message
// text is never compared by harnesses; storage keys built with Sprintf are
// exact for concrete arguments; a symbolic integer argument yields a
// formatted symbolic string that supports only equality (see fmtStringEq).

import (
	"encoding/hex"
	"fmt"
	"go/types"
	"strings"
)

type nativeErr struct{ s string }

func (e nativeErr) Error() string { return e.s }

type nativeStr struct{ s string }

func (e nativeStr) String() string { return e.s }

// toNative converts an interpreter value to a Go value suitable for fmt.
func toNative(fr *frame, v value, t types.Type) interface{} {
	switch x := v.(type) {
	case nil:
		return nil
	case bool, int, int8, int16, int32, int64, uint, uint8, uint16, uint32, uint64, uintptr, float32, float64, string, complex64, complex128:
		if t != nil {
			if _, named := t.(*types.Named); named {
				if m := findMethod(fr.i, t, "String"); m != nil {
					if s, ok := call(fr.i, fr, 0, m, []value{v}).(string); ok {
						return nativeStr{s}
					}
				}
				if m := findMethod(fr.i, t, "Error"); m != nil {
					if s, ok := call(fr.i, fr, 0, m, []value{v}).(string); ok {
						return nativeErr{s}
					}
				}
			}
		}
		return x
	case sv:
		return nativeStr{"<sym>"}
	case symString:
		return nativeStr{"<symstr>"}
	case symFloat:
		return nativeStr{"<symfloat>"}
	case iface:
		if x.t == nil {
			return nil
		}
		return toNative(fr, x.v, x.t)
	case *value:
		if t != nil {
			if m := findMethod(fr.i, t, "Error"); m != nil && x != nil {
				if s, ok := call(fr.i, fr, 0, m, []value{v}).(string); ok {
					return nativeErr{s}
				}
				return nativeErr{"<symbolic error text>"}
			}
			if m := findMethod(fr.i, t, "String"); m != nil && x != nil {
				if s, ok := call(fr.i, fr, 0, m, []value{v}).(string); ok {
					return nativeStr{s}
				}
			}
		}
		if x == nil {
			return nativeStr{"<nil>"}
		}
		return nativeStr{"0xc000000000"}
	case array:
		if t != nil {
			if m := findMethod(fr.i, t, "String"); m != nil {
				if s, ok := call(fr.i, fr, 0, m, []value{v}).(string); ok {
					return nativeStr{s}
				}
			}
		}
		return bytesOrList(fr, []value(x), t)
	case []value:
		if t != nil {
			if m := findMethod(fr.i, t, "String"); m != nil {
				if s, ok := call(fr.i, fr, 0, m, []value{v}).(string); ok {
					return nativeStr{s}
				}
			}
		}
		return bytesOrList(fr, x, t)
	case structure:
		if t != nil {
			if m := findMethod(fr.i, t, "Error"); m != nil {
				if s, ok := call(fr.i, fr, 0, m, []value{v}).(string); ok {
					return nativeErr{s}
				}
			}
			if m := findMethod(fr.i, t, "String"); m != nil {
				if s, ok := call(fr.i, fr, 0, m, []value{v}).(string); ok {
					return nativeStr{s}
				}
			}
		}
		var parts []interface{}
		var st *types.Struct
		if t != nil {
			st, _ = t.Underlying().(*types.Struct)
		}
		for j, f := range x {
			var ft types.Type
			if st != nil && j < st.NumFields() {
				ft = st.Field(j).Type()
			}
			parts = append(parts, toNative(fr, f, ft))
		}
		return parts
	}
	return nativeStr{fmt.Sprintf("<%T>", v)}
}

func bytesOrList(fr *frame, xs []value, t types.Type) interface{} {
	allBytes := len(xs) > 0
	for _, e := range xs {
		if _, ok := e.(uint8); !ok {
			allBytes = false
			break
		}
	}
	if allBytes {
		b := make([]byte, len(xs))
		for j, e := range xs {
			b[j] = e.(uint8)
		}
		return b
	}
	var et types.Type
	if t != nil {
		switch u := t.Underlying().(type) {
		case *types.Slice:
			et = u.Elem()
		case *types.Array:
			et = u.Elem()
		}
	}
	if et != nil {
		if b, ok := et.Underlying().(*types.Basic); ok && b.Kind() == types.Uint8 {
			// byte slice with symbolic content
			return nativeStr{"<symbytes>"}
		}
	}
	out := make([]interface{}, len(xs))
	for j, e := range xs {
		out[j] = toNative(fr, e, et)
	}
	return out
}

func nativeArgs(fr *frame, args []value) []interface{} {
	out := make([]interface{}, len(args))
	for j, a := range args {
		out[j] = toNative(fr, a, nil)
	}
	return out
}

func nativeSprintf(fr *frame, format string, args []value) string {
	return fmt.Sprintf(format, nativeArgs(fr, args)...)
}

func sprintValues(fr *frame, args []value) string {
	parts := make([]string, len(args))
	for j, a := range nativeArgs(fr, args) {
		parts[j] = fmt.Sprint(a)
	}
	return strings.Join(parts, " ")
}

func anySymArg(args []value) bool {
	for _, a := range args {
		if ifc, ok := a.(iface); ok {
			if _, isS := ifc.v.(sv); isS {
				return true
			}
		}
	}
	return false
}

func registerFmt() {
	reg("fmt.Sprintf", func(fr *frame, args []value) value {
		format := args[0].(string)
		va := args[1].([]value)
		if anySymArg(va) && fr.i.ex.fmtSymbolic {
			return symString{format: format, args: append([]value(nil), va...)}
		}
		return nativeSprintf(fr, format, va)
	})
	reg("fmt.Sprint", func(fr *frame, args []value) value {
		return fmt.Sprint(nativeArgs(fr, args[0].([]value))...)
	})
	reg("fmt.Sprintln", func(fr *frame, args []value) value {
		return fmt.Sprintln(nativeArgs(fr, args[0].([]value))...)
	})
	reg("fmt.Errorf", func(fr *frame, args []value) value {
		format := args[0].(string)
		va := args[1].([]value)
		msg := nativeSprintf(fr, strings.ReplaceAll(format, "%w", "%v"), va)
		// locate a %w operand
		wrapped := iface{}
		if idx := wVerbIndex(format); idx >= 0 && idx < len(va) {
			if e, ok := va[idx].(iface); ok {
				wrapped = e
			}
		}
		fmtPkg := fr.i.prog.ImportedPackage("fmt")
		if fmtPkg == nil {
			panic(engineError{"fmt package not loaded"})
		}
		if wrapped.t != nil {
			wt := fmtPkg.Type("wrapError").Type()
			cell := value(structure{msg, wrapped})
			return iface{t: types.NewPointer(wt), v: &cell}
		}
		errsPkg := fr.i.prog.ImportedPackage("errors")
		et := errsPkg.Type("errorString").Type()
		cell := value(structure{msg})
		return iface{t: types.NewPointer(et), v: &cell}
	})
	nop := func(fr *frame, args []value) value { return tuple{0, iface{}} }
	reg("fmt.Printf", nop)
	reg("fmt.Println", nop)
	reg("fmt.Print", nop)
	reg("fmt.Fprintf", func(fr *frame, args []value) value {
		s := nativeSprintf(fr, args[1].(string), args[2].([]value))
		return writeTo(fr, args[0], s)
	})
	reg("fmt.Fprintln", func(fr *frame, args []value) value {
		s := fmt.Sprintln(nativeArgs(fr, args[1].([]value))...)
		return writeTo(fr, args[0], s)
	})
	reg("fmt.Fprint", func(fr *frame, args []value) value {
		s := fmt.Sprint(nativeArgs(fr, args[1].([]value))...)
		return writeTo(fr, args[0], s)
	})
	reg("encoding/hex.EncodeToString", func(fr *frame, args []value) value {
		b := args[0].([]value)
		raw := make([]byte, len(b))
		for j, e := range b {
			c, ok := e.(uint8)
			if !ok {
				return symString{format: "%x", args: []value{iface{t: types.NewSlice(types.Typ[types.Uint8]), v: append([]value(nil), b...)}}}
			}
			raw[j] = c
		}
		return hex.EncodeToString(raw)
	})
	reg("strconv.Itoa", func(fr *frame, args []value) value {
		if s, ok := args[0].(sv); ok {
			return symString{format: "%d", args: []value{iface{t: types.Typ[types.Int], v: s}}}
		}
		return fmt.Sprint(args[0].(int))
	})
}

func wVerbIndex(format string) int {
	idx := 0
	for j := 0; j < len(format); j++ {
		if format[j] != '%' {
			continue
		}
		j++
		for j < len(format) && strings.IndexByte("+-# 0123456789.", format[j]) >= 0 {
			j++
		}
		if j >= len(format) {
			break
		}
		if format[j] == '%' {
			continue
		}
		if format[j] == 'w' {
			return idx
		}
		idx++
	}
	return -1
}

// writeTo calls w.Write([]byte(s)) on an io.Writer value.
func writeTo(fr *frame, w value, s string) value {
	ifc := w.(iface)
	if ifc.t == nil {
		panic(rtPanic("invalid memory address or nil pointer dereference"))
	}
	m := fr.i.prog.LookupMethod(ifc.t, nil, "Write")
	if m == nil {
		panic(engineError{"writer without Write method"})
	}
	b := make([]value, len(s))
	for j := 0; j < len(s); j++ {
		b[j] = s[j]
	}
	return call(fr.i, fr, 0, m, []value{ifc.v, b})
}

// fmtStringEq compares a formatted symbolic string against another string.
// Supported: the same format on both sides (argument-wise equality, relying
// on injectivity of %d/%x/%08x/%s of integers and fixed-length hashes), or a
// concrete string that parses under the format.
func (i *interpreter) fmtStringEq(x symString, y value) value {
	switch y := y.(type) {
	case symString:
		if y.bytes != nil {
			panic(engineError{"compare formatted string with byte string"})
		}
		if y.format != x.format || len(y.args) != len(x.args) {
			panic(engineError{"compare formatted strings with different formats: " + x.format + " vs " + y.format})
		}
		var acc value = true
		for j := range x.args {
			a, b := x.args[j].(iface), y.args[j].(iface)
			acc = i.andV(acc, i.equalsV(a.t, a.v, b.v))
		}
		return acc
	case string:
		return i.fmtMatchConcrete(x, y)
	}
	panic(engineError{fmt.Sprintf("compare formatted string with %T", y)})
}

// fmtMatchConcrete decides format(args) == s for formats made of literal text
// and %d / %x / %0Nx / %s verbs.
func (i *interpreter) fmtMatchConcrete(x symString, s string) value {
	f := x.format
	argi := 0
	var acc value = true
	pos := 0
	for j := 0; j < len(f); j++ {
		if f[j] != '%' {
			if pos >= len(s) || s[pos] != f[j] {
				return false
			}
			pos++
			continue
		}
		j++
		pad := 0
		zero := false
		if j < len(f) && f[j] == '0' {
			zero = true
			j++
		}
		for j < len(f) && f[j] >= '0' && f[j] <= '9' {
			pad = pad*10 + int(f[j]-'0')
			j++
		}
		if j >= len(f) {
			panic(engineError{"bad format " + f})
		}
		verb := f[j]
		if verb == '%' {
			if pos >= len(s) || s[pos] != '%' {
				return false
			}
			pos++
			continue
		}
		// the operand text extends to the next literal of the format
		end := len(s)
		if j+1 < len(f) {
			lit := f[j+1]
			if lit == '%' {
				panic(engineError{"adjacent verbs in symbolic format " + f})
			}
			k := strings.IndexByte(s[pos:], lit)
			if k < 0 {
				return false
			}
			end = pos + k
		}
		text := s[pos:end]
		pos = end
		arg := x.args[argi].(iface)
		argi++
		switch av := arg.v.(type) {
		case sv:
			var n uint64
			var err error
			neg := false
			switch verb {
			case 'd', 'v':
				t := text
				if strings.HasPrefix(t, "-") {
					neg = true
					t = t[1:]
				}
				_, err = fmt.Sscanf(t, "%d", &n)
				if fmt.Sprintf("%d", n) != t && !(zero && pad > 0) {
					return false
				}
			case 'x':
				t := text
				if strings.HasPrefix(t, "-") {
					neg = true
					t = t[1:]
				}
				if zero && pad > 0 && len(t) < pad {
					return false
				}
				_, err = fmt.Sscanf(t, "%x", &n)
				if err == nil {
					canon := fmt.Sprintf("%x", n)
					if zero && pad > 0 {
						canon = fmt.Sprintf("%0*x", pad, n)
					}
					if canon != t {
						return false
					}
				}
			default:
				panic(engineError{fmt.Sprintf("verb %%%c with symbolic integer", verb)})
			}
			if err != nil {
				return false
			}
			if neg {
				if !kindSigned(av.k) {
					return false
				}
				n = -n
			}
			w := kindWidth(av.k)
			if w < 64 {
				// the parsed value must be representable
				if kindSigned(av.k) {
					if sext64(n&mask(w), w) != int64(n) {
						return false
					}
				} else if n > mask(w) {
					return false
				}
			}
			acc = i.andV(acc, norm(i.ex.tb.eq(av.t, i.ex.tb.constBV(w, n)), types.Bool))
		default:
			got := fmt.Sprintf("%"+f[strings.LastIndexByte(f[:j], '%')+1:j+1], toNative(i.curFrameOrNil(), arg.v, arg.t))
			if got != text {
				return false
			}
		}
	}
	if pos != len(s) {
		return false
	}
	return acc
}

func (i *interpreter) curFrameOrNil() *frame {
	return &frame{i: i}
}
