package interp

// Cooperative goroutines (opt-in per harness with verifrt.Goroutines()).
//
// Every `go` statement of the code under test becomes a coroutine with its own
// interpreter stack (a parked Go goroutine); exactly one coroutine runs at a
// time and control changes hands only where the running one would block
// (channel operation, select, mutex, WaitGroup, sleep) or ends.  The schedule
// is deterministic: run-to-block, round-robin in creation order.  That keeps
// path re-execution deterministic; it also means ONE interleaving per path is
// explored (stated as a bound by the harnesses that use it).
//
// Virtual time only moves when every coroutine is blocked: then the earliest
// pending timer of any coroutine fires.  With no timer left the system is
// deadlocked and the main coroutine gets the usual blockedPanic.
// verifrt.Quiesce() lets the others run until all of them are blocked at the
// current virtual time (no timer is fired).

import (
	"fmt"
	"go/token"
)

type coro struct {
	id       int
	fn       value
	args     []value
	pos      token.Pos
	resume   chan struct{}
	started  bool
	finished bool
	exited   chan struct{}
	// blockedAt is the progress level at which the coroutine last failed to
	// proceed; it is runnable again once the level has moved on.
	blockedAt  int64
	waitWhat   string
	waitTimers []*channel
	stepsAtRun int64
	curFrame   *frame
}

type coroKilled struct{}

type sched struct {
	i         *interpreter
	ex        *pathExec
	coros     []*coro // coros[0] is the main coroutine (the harness)
	cur       *coro
	progress  int64
	killed    bool
	crash     interface{} // failure raised inside a coroutine, re-raised in main
	quiescing bool        // main waits in Quiesce
	deadlock  bool        // verdict for a blocked main
	switches  int
}

func newSched(i *interpreter, ex *pathExec) *sched {
	s := &sched{i: i, ex: ex, progress: 1}
	main := &coro{id: 0, resume: make(chan struct{}, 1), started: true}
	s.coros = []*coro{main}
	s.cur = main
	return s
}

func (s *sched) spawn(fn value, args []value, pos token.Pos) {
	c := &coro{id: len(s.coros), fn: fn, args: args, pos: pos, resume: make(chan struct{}, 1), exited: make(chan struct{})}
	s.coros = append(s.coros, c)
}

// runnable returns the next coroutine after c (round-robin) that may be able
// to move at the current progress level; main is left out while it quiesces.
func (s *sched) runnable(c *coro) *coro {
	n := len(s.coros)
	for k := 1; k <= n; k++ {
		d := s.coros[(c.id+k)%n]
		if d.finished || d.blockedAt == s.progress {
			continue
		}
		if d.id == 0 && s.quiescing {
			continue
		}
		return d
	}
	return nil
}

func (s *sched) run(d *coro) {
	s.switches++
	s.cur = d
	d.stepsAtRun = s.i.steps
	if !d.started {
		d.started = true
		go s.coroMain(d)
		return
	}
	d.resume <- struct{}{}
}

// park suspends me until control is handed back.
func (s *sched) park(me *coro) {
	<-me.resume
	if me.id != 0 && s.killed {
		panic(coroKilled{})
	}
	s.i.curFrame = me.curFrame
	if me.id == 0 && s.crash != nil {
		r := s.crash
		s.crash = nil
		panic(r)
	}
}

func (s *sched) transfer(me, d *coro) {
	if s.switches > 2_000_000 {
		panic(engineError{"scheduler: more than 2000000 context switches on one path"})
	}
	me.curFrame = s.i.curFrame
	s.run(d)
	s.park(me)
}

func (s *sched) coroMain(c *coro) {
	defer close(c.exited)
	defer func() {
		r := recover()
		c.finished = true
		if _, ok := r.(coroKilled); ok || s.killed {
			return
		}
		s.progress++
		main := s.coros[0]
		if r != nil {
			if tp, ok := r.(targetPanic); ok {
				tp.v = fmt.Sprintf("panic in goroutine: %s", toString(tp.v))
				r = tp
			}
			if bp, ok := r.(blockedPanic); ok {
				r = engineError{"scheduler: blockedPanic escaped a coroutine: " + bp.what}
			}
			if s.crash == nil {
				s.crash = r
			}
			s.run(main) // re-raised there
			return
		}
		d := s.runnable(c)
		if d == nil {
			d = main
		}
		s.run(d)
	}()
	call(s.i, nil, c.pos, c.fn, c.args)
}

// blocked is called by the running coroutine when its operation cannot
// proceed.  It returns true when the operation should be retried and false
// (to the main coroutine only) when the whole system is deadlocked.
func (s *sched) blocked(what string, timers []*channel) bool {
	me := s.cur
	if s.i.steps != me.stepsAtRun {
		s.progress++ // it did something before blocking here
	}
	me.blockedAt = s.progress
	me.waitWhat = what
	me.waitTimers = timers
	for {
		d := s.runnable(me)
		if d == me {
			me.waitTimers = nil
			return true
		}
		if d != nil {
			s.transfer(me, d)
			me.waitTimers = nil
			if me.id == 0 && s.deadlock {
				s.deadlock = false
				return false
			}
			return true
		}
		// nobody can move at the current virtual time
		main := s.coros[0]
		if s.quiescing {
			// that is what main was waiting for
			s.transfer(me, main)
			me.waitTimers = nil
			return true
		}
		if s.fireEarliest() {
			s.progress++
			continue
		}
		me.waitTimers = nil
		if me.id == 0 {
			return false
		}
		s.deadlock = true
		s.transfer(me, main)
		return true
	}
}

// fireEarliest fires the earliest pending timer any blocked coroutine waits on.
func (s *sched) fireEarliest() bool {
	var best *channel
	for _, c := range s.coros {
		if c.finished {
			continue
		}
		for _, t := range c.waitTimers {
			if t.fired {
				continue
			}
			if best == nil || s.i.decideV(s.i.binopV(token.LSS, i64T, t.fireAt, best.fireAt)) {
				best = t
			}
		}
	}
	if best == nil {
		return false
	}
	s.ex.fireTimer(best)
	return true
}

// quiesce (main only) lets the other coroutines run until none can move.
func (s *sched) quiesce() {
	me := s.coros[0]
	if s.cur != me {
		panic(engineError{"verifrt.Quiesce called outside the main coroutine"})
	}
	s.progress++ // main may have changed anything since the others blocked
	for {
		s.quiescing = true
		d := s.runnable(me)
		if d == nil {
			s.quiescing = false
			return
		}
		me.waitWhat, me.waitTimers = "quiesce", nil
		s.transfer(me, d)
		s.quiescing = false
		s.deadlock = false
	}
}

// yield lets the other coroutines run (each until it blocks) and then continues the caller: an
// explicit preemption point for interleavings between statements that do not block.
func (s *sched) yield() {
	me := s.cur
	s.progress++ // the others may be able to move now
	d := s.runnable(me)
	if d == nil || d == me {
		return
	}
	me.waitWhat, me.waitTimers = "yield", nil
	s.transfer(me, d)
	if me.id == 0 {
		s.deadlock = false
	}
}

// killAll ends every parked coroutine (path end).
func (s *sched) killAll() {
	s.killed = true
	for _, c := range s.coros[1:] {
		if c.started && !c.finished {
			c.resume <- struct{}{}
			<-c.exited
		}
	}
}

func (s *sched) describe() string {
	out := ""
	for _, c := range s.coros {
		st := "blocked on " + c.waitWhat
		if c.finished {
			st = "finished"
		} else if !c.started {
			st = "not started"
		}
		out += fmt.Sprintf("[g%d %s] ", c.id, st)
	}
	return out
}
