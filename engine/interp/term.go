package interp

// Hash-consed SMT terms (bit-vectors and booleans) with constant folding.
// One table per path execution (see pathExec); terms never cross paths.

import (
	"fmt"
	"math/bits"
	"strings"
)

type opcode uint8

const (
	opConst opcode = iota // bit-vector constant (w>0) or boolean constant (w==0)
	opVar
	opAdd
	opSub
	opMul
	opUDiv
	opURem
	opSDiv
	opSRem
	opAnd
	opOr
	opXor
	opNot // bvnot
	opNeg
	opShl
	opLShr
	opAShr
	opConcat
	opExtract // imm0=hi imm1=lo
	opZExt    // imm0 = extra bits
	opSExt    // imm0 = extra bits
	opIte
	opEq
	opULt
	opULe
	opSLt
	opSLe
	opBAnd // boolean and
	opBOr
	opBNot
	opUF // uninterpreted function application: name, args; result width w
)

var opNames = [...]string{
	opAdd: "bvadd", opSub: "bvsub", opMul: "bvmul", opUDiv: "bvudiv", opURem: "bvurem",
	opSDiv: "bvsdiv", opSRem: "bvsrem", opAnd: "bvand", opOr: "bvor", opXor: "bvxor",
	opNot: "bvnot", opNeg: "bvneg", opShl: "bvshl", opLShr: "bvlshr", opAShr: "bvashr",
	opConcat: "concat", opIte: "ite", opEq: "=", opULt: "bvult", opULe: "bvule",
	opSLt: "bvslt", opSLe: "bvsle", opBAnd: "and", opBOr: "or", opBNot: "not",
}

// term is an immutable DAG node.  w is the bit width; w==0 means Bool.
type term struct {
	id   int
	op   opcode
	w    int
	args []*term
	c    uint64 // opConst: value (w<=64).  For wide constants see wide.
	wide []byte // opConst with w>64: big-endian bytes
	name string // opVar, opUF
	imm0 int
	imm1 int
	// hard is set when the term contains a non-power-of-two mul/div/rem by
	// something (used to select the integer-encoding back end).
	hard bool
}

func (t *term) isConst() bool { return t.op == opConst }
func (t *term) isBool() bool  { return t.w == 0 }

type termKey struct {
	op         opcode
	w          int
	a0, a1, a2 int
	c          uint64
	imm0, imm1 int
	name       string
}

type termTable struct {
	next  int
	tab   map[termKey]*term
	vars  []*term
	ufs   map[string]string // name -> declaration
	ufOrd []string
	tt    *term
	ff    *term
}

func newTermTable() *termTable {
	tb := &termTable{tab: make(map[termKey]*term), ufs: map[string]string{}}
	tb.tt = tb.mk(opConst, 0, nil, 1, 0, 0, "")
	tb.ff = tb.mk(opConst, 0, nil, 0, 0, 0, "")
	return tb
}

func (tb *termTable) mk(op opcode, w int, args []*term, c uint64, imm0, imm1 int, name string) *term {
	k := termKey{op: op, w: w, c: c, imm0: imm0, imm1: imm1, name: name, a0: -1, a1: -1, a2: -1}
	if len(args) > 3 {
		var sb strings.Builder
		sb.WriteString(name)
		for _, a := range args {
			fmt.Fprintf(&sb, ",%d", a.id)
		}
		k.name = sb.String()
	} else {
		if len(args) > 0 {
			k.a0 = args[0].id
		}
		if len(args) > 1 {
			k.a1 = args[1].id
		}
		if len(args) > 2 {
			k.a2 = args[2].id
		}
	}
	if t, ok := tb.tab[k]; ok {
		return t
	}
	t := &term{id: tb.next, op: op, w: w, args: args, c: c, imm0: imm0, imm1: imm1, name: name}
	tb.next++
	for _, a := range args {
		if a.hard {
			t.hard = true
		}
	}
	switch op {
	case opMul, opUDiv, opURem, opSDiv, opSRem:
		t.hard = true
	}
	tb.tab[k] = t
	return t
}

func mask(w int) uint64 {
	if w >= 64 {
		return ^uint64(0)
	}
	return (uint64(1) << uint(w)) - 1
}

func (tb *termTable) constBV(w int, v uint64) *term {
	if w <= 0 || w > 64 {
		panic(engineError{fmt.Sprintf("constBV width %d", w)})
	}
	return tb.mk(opConst, w, nil, v&mask(w), 0, 0, "")
}

func (tb *termTable) constBool(b bool) *term {
	if b {
		return tb.tt
	}
	return tb.ff
}

func (tb *termTable) newVar(name string, w int) *term {
	t := tb.mk(opVar, w, nil, 0, 0, 0, name)
	for _, v := range tb.vars {
		if v == t {
			return t
		}
	}
	tb.vars = append(tb.vars, t)
	return t
}

func sext64(v uint64, w int) int64 {
	if w >= 64 {
		return int64(v)
	}
	sh := uint(64 - w)
	return int64(v<<sh) >> sh
}

// bin builds a binary bit-vector operation with folding.
func (tb *termTable) bin(op opcode, x, y *term) *term {
	w := x.w
	if x.w != y.w {
		panic(engineError{fmt.Sprintf("width mismatch %s: %d vs %d", opNames[op], x.w, y.w)})
	}
	if w <= 64 && x.isConst() && y.isConst() {
		a, b := x.c, y.c
		var r uint64
		ok := true
		switch op {
		case opAdd:
			r = a + b
		case opSub:
			r = a - b
		case opMul:
			r = a * b
		case opAnd:
			r = a & b
		case opOr:
			r = a | b
		case opXor:
			r = a ^ b
		case opUDiv:
			if b == 0 {
				r = mask(w)
			} else {
				r = a / b
			}
		case opURem:
			if b == 0 {
				r = a
			} else {
				r = a % b
			}
		case opSDiv:
			sa, sb := sext64(a, w), sext64(b, w)
			if sb == 0 {
				ok = false
			} else if sb == -1 {
				r = uint64(-sa)
			} else {
				r = uint64(sa / sb)
			}
		case opSRem:
			sa, sb := sext64(a, w), sext64(b, w)
			if sb == 0 {
				ok = false
			} else if sb == -1 {
				r = 0
			} else {
				r = uint64(sa % sb)
			}
		case opShl:
			if b >= uint64(w) {
				r = 0
			} else {
				r = a << b
			}
		case opLShr:
			if b >= uint64(w) {
				r = 0
			} else {
				r = a >> b
			}
		case opAShr:
			sa := sext64(a, w)
			if b >= uint64(w) {
				b = uint64(w - 1)
			}
			r = uint64(sa >> b)
		default:
			ok = false
		}
		if ok {
			return tb.constBV(w, r)
		}
	}
	// identities
	switch op {
	case opAdd:
		if x.isConst() && x.c == 0 && w <= 64 {
			return y
		}
		if y.isConst() && y.c == 0 && w <= 64 {
			return x
		}
		if x.isConst() && !y.isConst() { // canonical: constant on the right
			x, y = y, x
		}
	case opSub:
		if y.isConst() && y.c == 0 && w <= 64 {
			return x
		}
		if x == y {
			return tb.constBV(w, 0)
		}
	case opMul:
		if w <= 64 {
			if x.isConst() && !y.isConst() {
				x, y = y, x
			}
			if y.isConst() {
				if y.c == 0 {
					return y
				}
				if y.c == 1 {
					return x
				}
				if bits.OnesCount64(y.c) == 1 {
					return tb.bin(opShl, x, tb.constBV(w, uint64(bits.TrailingZeros64(y.c))))
				}
			}
		}
	case opAnd:
		if w <= 64 {
			if x.isConst() && !y.isConst() {
				x, y = y, x
			}
			if y.isConst() {
				if y.c == 0 {
					return y
				}
				if y.c == mask(w) {
					return x
				}
			}
		}
		if x == y {
			return x
		}
	case opOr:
		if w <= 64 {
			if x.isConst() && !y.isConst() {
				x, y = y, x
			}
			if y.isConst() {
				if y.c == 0 {
					return x
				}
				if y.c == mask(w) {
					return y
				}
			}
		}
		if x == y {
			return x
		}
		// (zext a) | ((zext b) << k) with disjoint bits is common in
		// binary.LittleEndian decoding; leave to the solver.
	case opXor:
		if w <= 64 {
			if x.isConst() && !y.isConst() {
				x, y = y, x
			}
			if y.isConst() && y.c == 0 {
				return x
			}
		}
		if x == y {
			return tb.constBV(w, 0)
		}
	case opShl, opLShr, opAShr:
		if y.isConst() && y.c == 0 && w <= 64 {
			return x
		}
		if x.isConst() && x.c == 0 && w <= 64 {
			return x
		}
		if y.isConst() && w <= 64 && y.c >= uint64(w) && op != opAShr {
			return tb.constBV(w, 0)
		}
		// shift by constant of an extension: express with extract/concat so
		// that byte (de)composition folds.
		if y.isConst() && w <= 64 && y.c < uint64(w) {
			k := int(y.c)
			switch op {
			case opLShr:
				// (x >> k) == zext(extract[w-1:k] x)
				return tb.zext(tb.extract(x, w-1, k), k)
			case opShl:
				// (x << k) == concat(extract[w-1-k:0] x, 0_k)
				return tb.concat(tb.extract(x, w-1-k, 0), tb.constBV(k, 0))
			}
		}
	case opUDiv, opURem, opSDiv, opSRem:
		if y.isConst() && w <= 64 && y.c != 0 && bits.OnesCount64(y.c) == 1 {
			k := bits.TrailingZeros64(y.c)
			switch op {
			case opUDiv:
				return tb.bin(opLShr, x, tb.constBV(w, uint64(k)))
			case opURem:
				return tb.bin(opAnd, x, tb.constBV(w, y.c-1))
			}
		}
	}
	t := tb.mk(op, w, []*term{x, y}, 0, 0, 0, "")
	switch op {
	case opMul, opUDiv, opURem, opSDiv, opSRem:
	default:
		t.hard = x.hard || y.hard
	}
	return t
}

func (tb *termTable) un(op opcode, x *term) *term {
	w := x.w
	if x.isConst() && w <= 64 {
		switch op {
		case opNot:
			return tb.constBV(w, ^x.c)
		case opNeg:
			return tb.constBV(w, -x.c)
		}
	}
	if x.op == op && op == opNot {
		return x.args[0]
	}
	return tb.mk(op, w, []*term{x}, 0, 0, 0, "")
}

func (tb *termTable) extract(x *term, hi, lo int) *term {
	if lo == 0 && hi == x.w-1 {
		return x
	}
	if hi < lo || hi >= x.w || lo < 0 {
		panic(engineError{fmt.Sprintf("extract [%d:%d] of width %d", hi, lo, x.w)})
	}
	w := hi - lo + 1
	if x.isConst() && x.w <= 64 {
		return tb.constBV(w, x.c>>uint(lo))
	}
	switch x.op {
	case opExtract:
		return tb.extract(x.args[0], hi+x.imm1, lo+x.imm1)
	case opConcat:
		a, b := x.args[0], x.args[1] // a high, b low
		if hi < b.w {
			return tb.extract(b, hi, lo)
		}
		if lo >= b.w {
			return tb.extract(a, hi-b.w, lo-b.w)
		}
		return tb.concat(tb.extract(a, hi-b.w, 0), tb.extract(b, b.w-1, lo))
	case opZExt:
		a := x.args[0]
		if hi < a.w {
			return tb.extract(a, hi, lo)
		}
		if lo >= a.w {
			return tb.constBVwide(w)
		}
		return tb.zext(tb.extract(a, a.w-1, lo), hi-a.w+1)
	case opSExt:
		a := x.args[0]
		if hi < a.w {
			return tb.extract(a, hi, lo)
		}
	case opAnd, opOr, opXor:
		// bitwise ops distribute over extract; only do so when it
		// simplifies (one side constant or both sides structured).
		a, b := x.args[0], x.args[1]
		if structured(a) && structured(b) {
			return tb.bin(x.op, tb.extract(a, hi, lo), tb.extract(b, hi, lo))
		}
	case opIte:
		if x.args[1].isConst() || x.args[2].isConst() {
			return tb.ite(x.args[0], tb.extract(x.args[1], hi, lo), tb.extract(x.args[2], hi, lo))
		}
	}
	return tb.mk(opExtract, w, []*term{x}, 0, hi, lo, "")
}

// constBVwide returns a zero constant of width w (w may exceed 64).
func (tb *termTable) constBVwide(w int) *term {
	if w <= 64 {
		return tb.constBV(w, 0)
	}
	// build by concatenation of 64-bit zero chunks
	t := tb.constBV(64, 0)
	rem := w - 64
	for rem > 0 {
		c := rem
		if c > 64 {
			c = 64
		}
		t = tb.mk(opConcat, t.w+c, []*term{t, tb.constBV(c, 0)}, 0, 0, 0, "")
		rem -= c
	}
	return t
}

func structured(t *term) bool {
	switch t.op {
	case opConst, opConcat, opZExt, opExtract:
		return true
	case opAnd, opOr, opXor:
		return structured(t.args[0]) && structured(t.args[1])
	}
	return false
}

func (tb *termTable) concat(hi, lo *term) *term {
	w := hi.w + lo.w
	if hi.isConst() && lo.isConst() && w <= 64 {
		return tb.constBV(w, hi.c<<uint(lo.w)|lo.c)
	}
	if hi.isConst() && hi.w <= 64 && hi.c == 0 {
		return tb.zext(lo, hi.w)
	}
	// adjacent extracts of the same term merge
	if hi.op == opExtract && lo.op == opExtract && hi.args[0] == lo.args[0] && hi.imm1 == lo.imm0+1 {
		return tb.extract(hi.args[0], hi.imm0, lo.imm1)
	}
	// concat(extract(x,hi..k+1), concat(extract(x,k..j), rest)) merge
	if hi.op == opExtract && lo.op == opConcat {
		l0 := lo.args[0]
		if l0.op == opExtract && l0.args[0] == hi.args[0] && hi.imm1 == l0.imm0+1 {
			return tb.concat(tb.extract(hi.args[0], hi.imm0, l0.imm1), lo.args[1])
		}
	}
	return tb.mk(opConcat, w, []*term{hi, lo}, 0, 0, 0, "")
}

func (tb *termTable) zext(x *term, extra int) *term {
	if extra == 0 {
		return x
	}
	if x.isConst() && x.w+extra <= 64 {
		return tb.constBV(x.w+extra, x.c)
	}
	if x.op == opZExt {
		return tb.zext(x.args[0], extra+x.imm0)
	}
	return tb.mk(opZExt, x.w+extra, []*term{x}, 0, extra, 0, "")
}

func (tb *termTable) sext(x *term, extra int) *term {
	if extra == 0 {
		return x
	}
	if x.isConst() && x.w+extra <= 64 {
		return tb.constBV(x.w+extra, uint64(sext64(x.c, x.w)))
	}
	if x.op == opZExt { // sign bit known zero
		return tb.zext(x.args[0], extra+x.imm0)
	}
	return tb.mk(opSExt, x.w+extra, []*term{x}, 0, extra, 0, "")
}

func (tb *termTable) ite(c, a, b *term) *term {
	if c.isConst() {
		if c.c != 0 {
			return a
		}
		return b
	}
	if a == b {
		return a
	}
	if a.w == 0 {
		if a.isConst() && b.isConst() {
			if a.c != 0 {
				return c
			}
			return tb.not(c)
		}
		if a.isConst() {
			if a.c != 0 {
				return tb.or(c, b)
			}
			return tb.and(tb.not(c), b)
		}
		if b.isConst() {
			if b.c != 0 {
				return tb.or(tb.not(c), a)
			}
			return tb.and(c, a)
		}
	}
	return tb.mk(opIte, a.w, []*term{c, a, b}, 0, 0, 0, "")
}

func (tb *termTable) not(x *term) *term {
	if x.isConst() {
		return tb.constBool(x.c == 0)
	}
	if x.op == opBNot {
		return x.args[0]
	}
	return tb.mk(opBNot, 0, []*term{x}, 0, 0, 0, "")
}

func (tb *termTable) and(x, y *term) *term {
	if x.isConst() {
		if x.c != 0 {
			return y
		}
		return x
	}
	if y.isConst() {
		if y.c != 0 {
			return x
		}
		return y
	}
	if x == y {
		return x
	}
	if x.id > y.id {
		x, y = y, x
	}
	return tb.mk(opBAnd, 0, []*term{x, y}, 0, 0, 0, "")
}

func (tb *termTable) or(x, y *term) *term {
	if x.isConst() {
		if x.c != 0 {
			return x
		}
		return y
	}
	if y.isConst() {
		if y.c != 0 {
			return y
		}
		return x
	}
	if x == y {
		return x
	}
	if x.id > y.id {
		x, y = y, x
	}
	return tb.mk(opBOr, 0, []*term{x, y}, 0, 0, 0, "")
}

func (tb *termTable) eq(x, y *term) *term {
	if x == y {
		return tb.tt
	}
	if x.w != y.w {
		panic(engineError{fmt.Sprintf("eq width mismatch %d vs %d", x.w, y.w)})
	}
	if x.isConst() && y.isConst() && x.w <= 64 {
		return tb.constBool(x.c == y.c)
	}
	if x.w == 0 {
		// boolean equality
		if x.isConst() {
			if x.c != 0 {
				return y
			}
			return tb.not(y)
		}
		if y.isConst() {
			if y.c != 0 {
				return x
			}
			return tb.not(x)
		}
	}
	if x.isConst() && !y.isConst() {
		x, y = y, x
	}
	// zext(a) == const  => const fits ? a == const' : false
	if y.isConst() && x.op == opZExt && x.w <= 64 {
		a := x.args[0]
		if y.c>>uint(a.w) != 0 {
			return tb.ff
		}
		return tb.eq(a, tb.constBV(a.w, y.c))
	}
	// ite(c, k1, k2) == k  with constants
	if y.isConst() && x.op == opIte && x.args[1].isConst() && x.args[2].isConst() && x.w <= 64 {
		e1 := x.args[1].c == y.c
		e2 := x.args[2].c == y.c
		switch {
		case e1 && e2:
			return tb.tt
		case e1:
			return x.args[0]
		case e2:
			return tb.not(x.args[0])
		default:
			return tb.ff
		}
	}
	if !x.isConst() && !y.isConst() && x.id > y.id {
		x, y = y, x
	}
	return tb.mk(opEq, 0, []*term{x, y}, 0, 0, 0, "")
}

func (tb *termTable) cmp(op opcode, x, y *term) *term {
	if x.w != y.w {
		panic(engineError{fmt.Sprintf("cmp width mismatch %d vs %d", x.w, y.w)})
	}
	if x.isConst() && y.isConst() && x.w <= 64 {
		var r bool
		switch op {
		case opULt:
			r = x.c < y.c
		case opULe:
			r = x.c <= y.c
		case opSLt:
			r = sext64(x.c, x.w) < sext64(y.c, y.w)
		case opSLe:
			r = sext64(x.c, x.w) <= sext64(y.c, y.w)
		}
		return tb.constBool(r)
	}
	if x == y {
		return tb.constBool(op == opULe || op == opSLe)
	}
	// unsigned comparisons of zero-extended narrow values against constants
	if x.w <= 64 {
		if op == opULt && y.isConst() && y.c == 0 {
			return tb.ff
		}
		if op == opULe && x.isConst() && x.c == 0 {
			return tb.tt
		}
		if y.isConst() && x.op == opZExt {
			a := x.args[0]
			if y.c > mask(a.w) {
				if op == opULt || op == opULe || ((op == opSLt || op == opSLe) && sext64(y.c, y.w) > 0) {
					return tb.tt
				}
			} else if op == opULt || op == opULe {
				return tb.cmp(op, a, tb.constBV(a.w, y.c))
			}
		}
		if x.isConst() && y.op == opZExt {
			a := y.args[0]
			if x.c > mask(a.w) {
				if op == opULt || op == opULe || ((op == opSLt || op == opSLe) && sext64(x.c, x.w) > 0) {
					return tb.ff
				}
			} else if op == opULt || op == opULe {
				return tb.cmp(op, tb.constBV(a.w, x.c), a)
			}
		}
	}
	return tb.mk(op, 0, []*term{x, y}, 0, 0, 0, "")
}

// uf builds an application of an uninterpreted function.
func (tb *termTable) uf(name string, w int, args []*term) *term {
	if _, ok := tb.ufs[name]; !ok {
		var sb strings.Builder
		fmt.Fprintf(&sb, "(declare-fun %s (", name)
		for i, a := range args {
			if i > 0 {
				sb.WriteByte(' ')
			}
			sb.WriteString(sortOf(a.w))
		}
		fmt.Fprintf(&sb, ") %s)", sortOf(w))
		tb.ufs[name] = sb.String()
		tb.ufOrd = append(tb.ufOrd, name)
	}
	return tb.mk(opUF, w, args, 0, 0, 0, name)
}

func sortOf(w int) string {
	if w == 0 {
		return "Bool"
	}
	return fmt.Sprintf("(_ BitVec %d)", w)
}

// ---------------------------------------------------------------------------
// SMT-LIB printing.  Each node is printed as a reference t<id> unless it is a
// constant or variable; the solver driver emits (define-fun t<id> ...) once.

func constLit(t *term) string {
	if t.w == 0 {
		if t.c != 0 {
			return "true"
		}
		return "false"
	}
	if t.w%4 == 0 {
		return fmt.Sprintf("#x%0*x", t.w/4, t.c)
	}
	return fmt.Sprintf("#b%0*b", t.w, t.c)
}

func ref(t *term) string {
	switch t.op {
	case opConst:
		return constLit(t)
	case opVar:
		return t.name
	}
	return fmt.Sprintf("t%d", t.id)
}

// body returns the SMT expression of t over references to its children.
func body(t *term) string {
	switch t.op {
	case opConst, opVar:
		return ref(t)
	case opExtract:
		return fmt.Sprintf("((_ extract %d %d) %s)", t.imm0, t.imm1, ref(t.args[0]))
	case opZExt:
		return fmt.Sprintf("((_ zero_extend %d) %s)", t.imm0, ref(t.args[0]))
	case opSExt:
		return fmt.Sprintf("((_ sign_extend %d) %s)", t.imm0, ref(t.args[0]))
	case opUF:
		var sb strings.Builder
		sb.WriteByte('(')
		sb.WriteString(t.name)
		for _, a := range t.args {
			sb.WriteByte(' ')
			sb.WriteString(ref(a))
		}
		sb.WriteByte(')')
		return sb.String()
	}
	var sb strings.Builder
	sb.WriteByte('(')
	sb.WriteString(opNames[t.op])
	for _, a := range t.args {
		sb.WriteByte(' ')
		sb.WriteString(ref(a))
	}
	sb.WriteByte(')')
	return sb.String()
}

// describe renders a term as a nested expression (for diagnostics only).
func describe(t *term, depth int) string {
	if t.op == opConst || t.op == opVar {
		return ref(t)
	}
	if depth <= 0 {
		return "…"
	}
	var sb strings.Builder
	sb.WriteByte('(')
	switch t.op {
	case opExtract:
		fmt.Fprintf(&sb, "extract[%d:%d]", t.imm0, t.imm1)
	case opZExt:
		fmt.Fprintf(&sb, "zext%d", t.imm0)
	case opSExt:
		fmt.Fprintf(&sb, "sext%d", t.imm0)
	case opUF:
		sb.WriteString(t.name)
	default:
		sb.WriteString(opNames[t.op])
	}
	for _, a := range t.args {
		sb.WriteByte(' ')
		sb.WriteString(describe(a, depth-1))
	}
	sb.WriteByte(')')
	return sb.String()
}
