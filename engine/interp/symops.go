package interp

// Symbolic-aware operators: binop, unop, conversions, slicing, indexing,
// allocation, map access, builtins, channels, select.

import (
	"bytes"
	"fmt"
	"go/token"
	"go/types"
	"os"

	"golang.org/x/tools/go/ssa"
)

// decideV turns a bool-or-symbolic condition into a concrete branch choice.
func (i *interpreter) decideV(c value) bool {
	switch c := c.(type) {
	case bool:
		return c
	case sv:
		return i.ex.decide(c.t)
	case poison:
		panic(engineError{"branch on uninitialised global " + c.what})
	}
	panic(engineError{fmt.Sprintf("decide on %T", c)})
}

// concreteInt returns a concrete int64 for x, case-splitting on the feasible
// values of a symbolic x (at most maxVals of them; more => cut).
func (i *interpreter) concreteInt(x value, what string, maxVals int) int64 {
	if s, ok := x.(sv); ok {
		v := i.ex.concretize(s.t, what, maxVals)
		if kindSigned(s.k) {
			return sext64(v, kindWidth(s.k))
		}
		return int64(v)
	}
	return asInt64(x)
}

// indexIn checks 0 <= idx < n (panicking on the target's behalf on the
// feasible out-of-range side) and returns a concrete index.
func (i *interpreter) indexIn(idx value, n int) int {
	if s, ok := idx.(sv); ok {
		tb := i.ex.tb
		w := kindWidth(s.k)
		var inRange *term
		nn := tb.constBV(w, uint64(n))
		// a length that does not fit the index type bounds nothing (e.g. table[byte] with 256 entries)
		if kindSigned(s.k) {
			inRange = tb.cmp(opSLe, tb.constBV(w, 0), s.t)
			if w >= 64 || uint64(n) <= mask(w-1) {
				inRange = tb.and(inRange, tb.cmp(opSLt, s.t, nn))
			}
		} else {
			inRange = tb.tt
			if w >= 64 || uint64(n) <= mask(w) {
				inRange = tb.cmp(opULt, s.t, nn)
			}
		}
		if !i.ex.decide(inRange) {
			panic(rtPanic("index out of range [symbolic] with length %d", n))
		}
		return int(i.ex.concretize(s.t, "index", n+1))
	}
	v := asInt64(idx)
	if k, _ := kindOf(idx); !kindSigned(k) && v < 0 {
		panic(rtPanic("index out of range [%d] with length %d", uint64(v), n))
	}
	if v < 0 || v >= int64(n) {
		panic(rtPanic("index out of range [%d] with length %d", v, n))
	}
	return int(v)
}

// boundIn decides lo <= x <= hi for a slicing bound and returns it concretely.
func (i *interpreter) boundIn(x value, lo, hi int, what string) int {
	if s, ok := x.(sv); ok {
		tb := i.ex.tb
		w := kindWidth(s.k)
		var ok2 *term
		// an upper bound that does not fit the operand type bounds nothing
		if kindSigned(s.k) {
			ok2 = tb.cmp(opSLe, tb.constBV(w, uint64(lo)), s.t)
			if w >= 64 || uint64(hi) <= mask(w-1) {
				ok2 = tb.and(ok2, tb.cmp(opSLe, s.t, tb.constBV(w, uint64(hi))))
			}
		} else {
			ok2 = tb.cmp(opULe, tb.constBV(w, uint64(lo)), s.t)
			if w >= 64 || uint64(hi) <= mask(w) {
				ok2 = tb.and(ok2, tb.cmp(opULe, s.t, tb.constBV(w, uint64(hi))))
			}
		}
		if !i.ex.decide(ok2) {
			panic(rtPanic("slice bounds out of range [%s symbolic] with capacity %d", what, hi))
		}
		return int(i.ex.concretize(s.t, "slice bound", hi-lo+2))
	}
	v := asInt64(x)
	if k, _ := kindOf(x); !kindSigned(k) && v < 0 {
		panic(rtPanic("slice bounds out of range [%s %d] with capacity %d", what, uint64(v), hi))
	}
	if v < int64(lo) || v > int64(hi) {
		panic(rtPanic("slice bounds out of range [%s %d] with capacity %d", what, v, hi))
	}
	return int(v)
}

// sliceOp returns x[lo:hi:max].
func (i *interpreter) sliceOp(x, lo, hi, max value) value {
	var Len, Cap int
	switch x := x.(type) {
	case string:
		Len, Cap = len(x), len(x)
	case symString:
		if x.bytes == nil {
			panic(engineError{"slice of formatted symbolic string"})
		}
		Len, Cap = len(x.bytes), len(x.bytes)
	case []value:
		Len, Cap = len(x), cap(x)
	case *value: // *array
		if x == nil {
			panic(rtPanic("invalid memory address or nil pointer dereference"))
		}
		a := (*x).(array)
		Len, Cap = len(a), cap(a)
	default:
		panic(engineError{fmt.Sprintf("slice: unexpected X type: %T", x)})
	}
	m := Cap
	if max != nil {
		m = i.boundIn(max, 0, Cap, "::max")
	}
	h := Len
	if hi != nil {
		h = i.boundIn(hi, 0, m, ":hi")
	}
	l := 0
	if lo != nil {
		l = i.boundIn(lo, 0, h, "lo:")
	}
	switch x := x.(type) {
	case string:
		return x[l:h]
	case symString:
		return symString{bytes: x.bytes[l:h]}
	case []value:
		return x[l:h:m]
	case *value:
		a := (*x).(array)
		return []value(a)[l:h:m]
	}
	panic("unreachable")
}

const maxSliceLen = 1 << 40

// makeSlice implements make([]T, len, cap).
func (i *interpreter) makeSlice(fr *frame, tElt types.Type, lenV, capV value) value {
	elemSize := i.sizes.Sizeof(tElt)
	if elemSize == 0 {
		elemSize = 1
	}
	limit := int64(maxSliceLen) / elemSize
	check := func(v value, what string) {
		s, ok := v.(sv)
		if !ok {
			n := asInt64(v)
			if k, _ := kindOf(v); !kindSigned(k) && n < 0 {
				panic(rtPanic("makeslice: %s out of range", what))
			}
			if n < 0 || n > limit {
				panic(rtPanic("makeslice: %s out of range", what))
			}
			return
		}
		tb := i.ex.tb
		w := kindWidth(s.k)
		var bad *term
		if kindSigned(s.k) {
			bad = tb.cmp(opSLt, s.t, tb.constBV(w, 0))
			if w == 64 || uint64(limit) <= mask(w-1) {
				bad = tb.or(bad, tb.cmp(opSLt, tb.constBV(w, uint64(limit)), s.t))
			}
		} else {
			bad = tb.cmp(opULt, tb.constBV(w, uint64(limit)&mask(w)), s.t)
			if w < 64 && uint64(limit) > mask(w) {
				bad = tb.ff
			}
		}
		if i.ex.decide(bad) {
			panic(rtPanic("makeslice: %s out of range", what))
		}
	}
	check(lenV, "len")
	if capV != lenV {
		check(capV, "cap")
	}
	// allocation obligation hook (C20): size may still be symbolic here
	i.ex.onAlloc(fr, lenV, elemSize)
	n := i.concreteInt(lenV, "make len", i.cfg.MaxSymLen+1)
	c := n
	if capV != lenV {
		c = i.concreteInt(capV, "make cap", i.cfg.MaxSymLen+1)
		if c < n {
			panic(rtPanic("makeslice: cap out of range"))
		}
	}
	if c > int64(i.cfg.MaxConcreteAlloc) {
		panic(pathEnd{reason: fmt.Sprintf("cut: allocation of %d elements exceeds engine limit", c)})
	}
	sl := make([]value, c)
	for j := range sl {
		sl[j] = zero(tElt)
	}
	return sl[:n]
}

// lookup returns x[idx] where x is a map.
func (i *interpreter) lookup(instr *ssa.Lookup, x, idx value) value {
	switch x := x.(type) {
	case *omap:
		var v value
		e := x.find(i, idx)
		ok := e != nil
		if ok {
			v = copyVal(e.val)
		} else {
			v = zero(instr.X.Type().Underlying().(*types.Map).Elem())
		}
		if instr.CommaOk {
			v = tuple{v, ok}
		}
		return v
	}
	panic(engineError{fmt.Sprintf("unexpected x type in Lookup: %T", x)})
}

func (i *interpreter) unop(fr *frame, instr *ssa.UnOp, x value) value {
	switch instr.Op {
	case token.ARROW:
		ch, _ := x.(*channel)
		v, ok := i.chanRecv(fr, ch)
		if !ok {
			v = zero(instr.X.Type().Underlying().(*types.Chan).Elem())
		}
		if instr.CommaOk {
			return tuple{v, ok}
		}
		return v
	case token.MUL:
		if ps, isP := x.(poison); isP {
			return ps
		}
		return load(deref(instr.X.Type()), derefPtr(x))
	}
	if s, ok := x.(sv); ok {
		tb := i.ex.tb
		switch instr.Op {
		case token.NOT:
			return norm(tb.not(s.t), types.Bool)
		case token.SUB:
			return norm(tb.un(opNeg, s.t), s.k)
		case token.XOR:
			return norm(tb.un(opNot, s.t), s.k)
		}
		panic(engineError{fmt.Sprintf("symbolic unary op %s", instr.Op)})
	}
	if p, ok := x.(poison); ok {
		panic(engineError{"use of uninitialised global " + p.what})
	}
	return unopConcrete(instr, x)
}

// binopV is binop with symbolic operands and target-level runtime panics.
func (i *interpreter) binopV(op token.Token, t types.Type, x, y value) value {
	if _, ok := x.(symFloat); ok {
		return i.symFloatCmp(op, x, y)
	}
	if _, ok := y.(symFloat); ok {
		return i.symFloatCmp(op, x, y)
	}
	xs, xIsSym := x.(sv)
	ys, yIsSym := y.(sv)
	if !xIsSym && !yIsSym {
		switch op {
		case token.EQL:
			r := i.eqnilV(t, x, y)
			return r
		case token.NEQ:
			return i.notV(i.eqnilV(t, x, y))
		case token.QUO, token.REM:
			if k, ok := kindOf(y); ok && k != types.Bool {
				if concreteBits(y) == 0 {
					panic(rtPanic("integer divide by zero"))
				}
			}
		case token.SHL, token.SHR:
			if k, ok := kindOf(y); ok && kindSigned(k) && asInt64(y) < 0 {
				panic(rtPanic("negative shift amount"))
			}
		case token.ADD:
			if _, ok := x.(symString); ok {
				return i.symConcat(x, y)
			}
			if _, ok := y.(symString); ok {
				return i.symConcat(x, y)
			}
		}
		if p, ok := x.(poison); ok {
			panic(engineError{"use of uninitialised global " + p.what})
		}
		if p, ok := y.(poison); ok {
			panic(engineError{"use of uninitialised global " + p.what})
		}
		return binop(op, t, x, y)
	}
	tb := i.ex.tb
	var tx, ty *term
	var k types.BasicKind
	if xIsSym {
		tx, k = xs.t, xs.k
	} else {
		tx, k = i.toTerm(x)
	}
	var ky types.BasicKind
	if yIsSym {
		ty, ky = ys.t, ys.k
	} else {
		ty, ky = i.toTerm(y)
	}
	signed := kindSigned(k)
	w := kindWidth(k)
	switch op {
	case token.SHL, token.SHR:
		// shift count has its own type; bring it to width w (saturating)
		if kindSigned(ky) {
			neg := tb.cmp(opSLt, ty, tb.constBV(ty.w, 0))
			if i.ex.decide(neg) {
				panic(rtPanic("negative shift amount"))
			}
		}
		var cnt *term
		switch {
		case ty.w == w:
			cnt = ty
		case ty.w < w:
			cnt = tb.zext(ty, w-ty.w)
		default:
			// wider count: saturate
			big := tb.cmp(opULe, tb.constBV(ty.w, uint64(w)), ty)
			cnt = tb.ite(big, tb.constBV(w, uint64(w)), tb.extract(ty, w-1, 0))
		}
		switch {
		case op == token.SHL:
			return norm(tb.bin(opShl, tx, cnt), k)
		case signed:
			return norm(tb.bin(opAShr, tx, cnt), k)
		default:
			return norm(tb.bin(opLShr, tx, cnt), k)
		}
	}
	if k == types.Bool {
		switch op {
		case token.EQL:
			return norm(tb.eq(tx, ty), types.Bool)
		case token.NEQ:
			return norm(tb.not(tb.eq(tx, ty)), types.Bool)
		case token.AND, token.LAND:
			return norm(tb.and(tx, ty), types.Bool)
		case token.OR, token.LOR:
			return norm(tb.or(tx, ty), types.Bool)
		}
		panic(engineError{fmt.Sprintf("symbolic bool op %s", op)})
	}
	if tx.w != ty.w {
		panic(engineError{fmt.Sprintf("binop %s width mismatch %d/%d (%s)", op, tx.w, ty.w, t)})
	}
	switch op {
	case token.ADD:
		return norm(tb.bin(opAdd, tx, ty), k)
	case token.SUB:
		return norm(tb.bin(opSub, tx, ty), k)
	case token.MUL:
		return norm(tb.bin(opMul, tx, ty), k)
	case token.QUO, token.REM:
		zeroDiv := tb.eq(ty, tb.constBV(w, 0))
		if i.ex.decide(zeroDiv) {
			panic(rtPanic("integer divide by zero"))
		}
		var o opcode
		switch {
		case op == token.QUO && signed:
			o = opSDiv
		case op == token.QUO:
			o = opUDiv
		case signed:
			o = opSRem
		default:
			o = opURem
		}
		return norm(tb.bin(o, tx, ty), k)
	case token.AND:
		return norm(tb.bin(opAnd, tx, ty), k)
	case token.OR:
		return norm(tb.bin(opOr, tx, ty), k)
	case token.XOR:
		return norm(tb.bin(opXor, tx, ty), k)
	case token.AND_NOT:
		return norm(tb.bin(opAnd, tx, tb.un(opNot, ty)), k)
	case token.EQL:
		return norm(tb.eq(tx, ty), types.Bool)
	case token.NEQ:
		return norm(tb.not(tb.eq(tx, ty)), types.Bool)
	case token.LSS:
		if signed {
			return norm(tb.cmp(opSLt, tx, ty), types.Bool)
		}
		return norm(tb.cmp(opULt, tx, ty), types.Bool)
	case token.LEQ:
		if signed {
			return norm(tb.cmp(opSLe, tx, ty), types.Bool)
		}
		return norm(tb.cmp(opULe, tx, ty), types.Bool)
	case token.GTR:
		if signed {
			return norm(tb.cmp(opSLt, ty, tx), types.Bool)
		}
		return norm(tb.cmp(opULt, ty, tx), types.Bool)
	case token.GEQ:
		if signed {
			return norm(tb.cmp(opSLe, ty, tx), types.Bool)
		}
		return norm(tb.cmp(opULe, ty, tx), types.Bool)
	}
	panic(engineError{fmt.Sprintf("symbolic binop %s on %s", op, t)})
}

// eqnilV is eqnil returning a possibly symbolic result.
func (i *interpreter) eqnilV(t types.Type, x, y value) value {
	switch t.Underlying().(type) {
	case *types.Map, *types.Signature, *types.Slice:
		return eqnil(t, x, y)
	}
	return i.equalsV(t, x, y)
}

// convV converts x from t_src to t_dst, handling symbolic scalars.
func (i *interpreter) convV(t_dst, t_src types.Type, x value) value {
	if s, ok := x.(sv); ok {
		db, ok := t_dst.Underlying().(*types.Basic)
		if !ok {
			panic(engineError{fmt.Sprintf("symbolic conversion to %s", t_dst)})
		}
		if db.Info()&types.IsInteger == 0 {
			if db.Info()&types.IsFloat != 0 {
				// float64(symbolic int): kept as a symbolic float wrapper
				return symFloat{num: s, den: 1}
			}
			if db.Kind() == types.String {
				panic(engineError{"string(symbolic integer)"})
			}
			panic(engineError{fmt.Sprintf("symbolic conversion to %s", t_dst)})
		}
		dk := db.Kind()
		tb := i.ex.tb
		sw, dw := kindWidth(s.k), kindWidth(dk)
		var r *term
		switch {
		case dw == sw:
			r = s.t
		case dw < sw:
			r = tb.extract(s.t, dw-1, 0)
		case kindSigned(s.k):
			r = tb.sext(s.t, dw-sw)
		default:
			r = tb.zext(s.t, dw-sw)
		}
		return norm(r, dk)
	}
	if sf, ok := x.(symFloat); ok {
		db, ok := t_dst.Underlying().(*types.Basic)
		if ok && db.Info()&types.IsFloat != 0 {
			return sf
		}
		panic(engineError{fmt.Sprintf("conversion of symbolic float to %s", t_dst)})
	}
	if ss, ok := x.(symString); ok {
		switch d := t_dst.Underlying().(type) {
		case *types.Basic:
			if d.Kind() == types.String {
				return ss
			}
		case *types.Slice:
			if ss.bytes != nil {
				out := make([]value, len(ss.bytes))
				copy(out, ss.bytes)
				return out
			}
		}
		panic(engineError{fmt.Sprintf("conversion of symbolic string to %s", t_dst)})
	}
	// []byte with symbolic elements -> string
	if sl, ok := x.([]value); ok {
		if _, isSlice := t_src.Underlying().(*types.Slice); isSlice {
			for _, e := range sl {
				if isSym(e) {
					b := make([]value, len(sl))
					copy(b, sl)
					return symString{bytes: b}
				}
			}
		}
	}
	if p, ok := x.(poison); ok {
		panic(engineError{"use of uninitialised global " + p.what})
	}
	return conv(t_dst, t_src, x)
}

// symFloat is the only floating-point symbolic form supported: num/den with a
// symbolic integer numerator (Duration.Seconds() and friends).  Only
// comparison against a constant is defined.
type symFloat struct {
	num sv
	den float64
}

func (i *interpreter) symConcat(x, y value) value {
	toBytes := func(v value) []value {
		switch v := v.(type) {
		case string:
			out := make([]value, len(v))
			for j := 0; j < len(v); j++ {
				out[j] = v[j]
			}
			return out
		case symString:
			if v.bytes == nil {
				panic(engineError{"concatenation of formatted symbolic string"})
			}
			return v.bytes
		}
		panic(engineError{fmt.Sprintf("symConcat %T", v)})
	}
	a, b := toBytes(x), toBytes(y)
	out := make([]value, 0, len(a)+len(b))
	out = append(out, a...)
	out = append(out, b...)
	return symString{bytes: out}
}

func (i *interpreter) symStringEq(x symString, y value) value {
	if x.bytes != nil {
		var yb []value
		switch y := y.(type) {
		case string:
			if len(y) != len(x.bytes) {
				return false
			}
			for j := 0; j < len(y); j++ {
				yb = append(yb, y[j])
			}
		case symString:
			if y.bytes == nil {
				panic(engineError{"compare byte string with formatted string"})
			}
			if len(y.bytes) != len(x.bytes) {
				return false
			}
			yb = y.bytes
		}
		var acc value = true
		for j := range x.bytes {
			acc = i.andV(acc, i.equalsV(types.Typ[types.Uint8], x.bytes[j], yb[j]))
			if b, ok := acc.(bool); ok && !b {
				return false
			}
		}
		return acc
	}
	return i.fmtStringEq(x, y)
}

// ---------------------------------------------------------------------------
// builtins

func callBuiltin(caller *frame, callpos token.Pos, fn *ssa.Builtin, args []value) value {
	i := caller.i
	switch fn.Name() {
	case "append":
		if len(args) == 1 {
			return args[0]
		}
		switch s := args[1].(type) {
		case string:
			arg0 := args[0].([]value)
			for j := 0; j < len(s); j++ {
				arg0 = append(arg0, s[j])
			}
			return arg0
		case symString:
			if s.bytes == nil {
				panic(engineError{"append of formatted symbolic string"})
			}
			return append(args[0].([]value), s.bytes...)
		}
		src := args[1].([]value)
		dst := args[0].([]value)
		// copy aggregates to avoid aliasing between source and destination
		for _, e := range src {
			dst = append(dst, copyVal(e))
		}
		return dst

	case "copy":
		src := args[1]
		switch s := src.(type) {
		case string:
			b := make([]value, len(s))
			for j := 0; j < len(s); j++ {
				b[j] = s[j]
			}
			src = b
		case symString:
			src = s.bytes
		}
		dst := args[0].([]value)
		s := src.([]value)
		n := len(dst)
		if len(s) < n {
			n = len(s)
		}
		if n > 0 && len(s) > 0 && len(dst) > 0 {
			// memmove semantics (overlap-safe): Go's copy on []value already is
			tmp := make([]value, n)
			for j := 0; j < n; j++ {
				tmp[j] = copyVal(s[j])
			}
			copy(dst, tmp)
		}
		return n

	case "close":
		i.chanClose(args[0].(*channel))
		return nil

	case "delete":
		switch m := args[0].(type) {
		case *omap:
			m.delete(i, args[1])
		default:
			panic(engineError{fmt.Sprintf("illegal map type: %T", m)})
		}
		return nil

	case "print", "println":
		ln := fn.Name() == "println"
		var buf bytes.Buffer
		for j, arg := range args {
			if j > 0 && ln {
				buf.WriteRune(' ')
			}
			buf.WriteString(toString(arg))
		}
		if ln {
			buf.WriteRune('\n')
		}
		if i.cfg.Verbose {
			os.Stderr.Write(buf.Bytes())
		}
		return nil

	case "len":
		switch x := args[0].(type) {
		case string:
			return len(x)
		case symString:
			if x.bytes == nil {
				panic(engineError{"len of formatted symbolic string"})
			}
			return len(x.bytes)
		case array:
			return len(x)
		case *value:
			return len((*x).(array))
		case []value:
			return len(x)
		case *omap:
			return x.len()
		case *channel:
			if x == nil {
				return 0
			}
			return len(x.buf)
		default:
			panic(engineError{fmt.Sprintf("len: illegal operand: %T", x)})
		}

	case "cap":
		switch x := args[0].(type) {
		case array:
			return cap(x)
		case *value:
			return cap((*x).(array))
		case []value:
			return cap(x)
		case *channel:
			if x == nil {
				return 0
			}
			return x.cap
		default:
			panic(engineError{fmt.Sprintf("cap: illegal operand: %T", x)})
		}

	case "min":
		return foldLeft(min, args)
	case "max":
		return foldLeft(max, args)

	case "panic":
		panic(targetPanic{v: args[0]})

	case "recover":
		return doRecover(caller)

	case "ssa:wrapnilchk":
		recv := args[0]
		if recv.(*value) == nil {
			panic(rtPanic("value method %v.%v called using nil *%v pointer", args[1], args[2], args[1]))
		}
		return recv

	case "ssa:deferstack":
		return &caller.defers
	}
	panic(engineError{"unknown built-in: " + fn.Name()})
}

func rangeIter(x value, t types.Type) iter {
	switch x := x.(type) {
	case *omap:
		it := &omapIter{m: x}
		if x != nil {
			it.snap = append(it.snap, x.ents...)
		}
		return it
	case string:
		return &stringIter{s: x}
	}
	panic(engineError{fmt.Sprintf("cannot range over %T", x)})
}

// ---------------------------------------------------------------------------
// channels (sequential-unit semantics)

func (i *interpreter) chanSend(fr *frame, ch *channel, v value) {
	if ch == nil {
		panic(blockedPanic{"send on nil channel"})
	}
	if ch.closed {
		panic(targetPanic{v: "send on closed channel", rt: true})
	}
	for len(ch.buf) >= ch.cap || ch.cap == 0 {
		if ch.cap == 0 {
			// unbuffered: a rendezvous needs a concurrently running receiver;
			// deliver into a one-slot buffer if the harness declared one.
			if i.ex.unbufferedOK(ch) && len(ch.buf) == 0 {
				break
			}
		}
		if !i.ex.onBlocked(fr, "send", ch) {
			panic(blockedPanic{fmt.Sprintf("send on full channel #%d at %s", ch.id, fr.pos())})
		}
		if ch.closed {
			panic(targetPanic{v: "send on closed channel", rt: true})
		}
	}
	ch.buf = append(ch.buf, copyVal(v))
}

func (i *interpreter) chanRecv(fr *frame, ch *channel) (value, bool) {
	if ch == nil {
		panic(blockedPanic{"receive on nil channel"})
	}
	for {
		if len(ch.buf) > 0 {
			v := ch.buf[0]
			ch.buf = ch.buf[1:]
			return v, true
		}
		if ch.closed {
			return nil, false
		}
		if ch.timer && !ch.fired {
			// a lone timer receive: advance the virtual clock
			if i.ex.sched != nil && !i.ex.timerDue(ch) {
				// ... once nobody else can move
				i.ex.pendingTimers = []*channel{ch}
				if i.ex.onBlocked(fr, "timer", ch) {
					continue
				}
			}
			i.ex.fireTimer(ch)
			continue
		}
		if !i.ex.onBlocked(fr, "recv", ch) {
			panic(blockedPanic{fmt.Sprintf("receive on empty channel #%d at %s", ch.id, fr.pos())})
		}
	}
}

func (i *interpreter) chanClose(ch *channel) {
	if ch == nil {
		panic(targetPanic{v: "close of nil channel", rt: true})
	}
	if ch.closed {
		panic(targetPanic{v: "close of closed channel", rt: true})
	}
	ch.closed = true
}

// selectOp implements ssa.Select.
func (i *interpreter) selectOp(fr *frame, instr *ssa.Select) value {
	type cand struct {
		idx int
	}
	for attempt := 0; ; attempt++ {
		var ready []int
		var timers []int
		for j, st := range instr.States {
			ch, _ := fr.get(st.Chan).(*channel)
			if ch == nil {
				continue
			}
			if st.Dir == types.RecvOnly {
				if len(ch.buf) > 0 || ch.closed {
					ready = append(ready, j)
				} else if ch.timer && !ch.fired {
					if i.ex.timerDue(ch) {
						i.ex.fireTimer(ch)
						ready = append(ready, j)
					} else {
						timers = append(timers, j)
					}
				}
			} else {
				if ch.closed {
					ready = append(ready, j)
				} else if len(ch.buf) < ch.cap || (ch.cap == 0 && i.ex.unbufferedOK(ch) && len(ch.buf) == 0) {
					ready = append(ready, j)
				}
			}
		}
		chosen := -1
		switch {
		case len(ready) == 1:
			chosen = ready[0]
		case len(ready) > 1:
			chosen = ready[i.ex.chooseN("select", len(ready))]
		case !instr.Blocking:
			chosen = -1
		case len(timers) > 0:
			// only timers can make progress: let the harness run other
			// units first; otherwise fire the earliest timer.
			if i.ex.sched != nil {
				i.ex.pendingTimers = nil
				for _, j := range timers {
					i.ex.pendingTimers = append(i.ex.pendingTimers, fr.get(instr.States[j].Chan).(*channel))
				}
			}
			if i.ex.onBlocked(fr, "select", nil) {
				continue
			}
			k := timers[0]
			if len(timers) > 1 {
				k = timers[i.ex.chooseN("select-timer", len(timers))]
			}
			i.ex.fireTimer(fr.get(instr.States[k].Chan).(*channel))
			continue
		default:
			if i.ex.onBlocked(fr, "select", nil) {
				continue
			}
			panic(blockedPanic{"select with no ready case at " + fr.pos()})
		}
		r := tuple{chosen, false}
		for j, st := range instr.States {
			if st.Dir == types.RecvOnly {
				var v value
				if j == chosen {
					ch := fr.get(st.Chan).(*channel)
					rv, ok := i.chanRecv(fr, ch)
					r[1] = ok
					if ok {
						v = rv
					} else {
						v = zero(st.Chan.Type().Underlying().(*types.Chan).Elem())
					}
				} else {
					v = zero(st.Chan.Type().Underlying().(*types.Chan).Elem())
				}
				r = append(r, v)
			} else if j == chosen {
				ch := fr.get(st.Chan).(*channel)
				i.chanSend(fr, ch, fr.get(st.Send))
			}
		}
		return r
	}
}
