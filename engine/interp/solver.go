package interp

// Solver driver: one long-lived `z3 -in` per worker; the path condition of the
// current path is asserted at base level (it only grows along a path), each
// query is bracketed by push/pop.  A fresh path starts with (reset).
// Fallback portfolio on unknown: cvc5 (with --solve-bv-as-int=sum for queries
// containing non-power-of-two mul/div/rem) and z3-new, one-shot on the logged
// script.

import (
	"bufio"
	"bytes"
	"fmt"
	"io"
	"os"
	"os/exec"
	"strconv"
	"strings"
	"time"
)

type satResult int

const (
	resUnsat satResult = iota
	resSat
	resUnknown
)

func (r satResult) String() string {
	return [...]string{"unsat", "sat", "unknown"}[r]
}

type SolverStats struct {
	Queries     int
	Sat         int
	Unsat       int
	Unknown     int
	Errors      int
	Z3Time      time.Duration
	FallbackN   int
	FallbackT   time.Duration
	ByBackend   map[string]int
	CrossChecks int
}

func (s *SolverStats) add(o *SolverStats) {
	s.Queries += o.Queries
	s.Sat += o.Sat
	s.Unsat += o.Unsat
	s.Unknown += o.Unknown
	s.Errors += o.Errors
	s.Z3Time += o.Z3Time
	s.FallbackN += o.FallbackN
	s.FallbackT += o.FallbackT
	s.CrossChecks += o.CrossChecks
	if s.ByBackend == nil {
		s.ByBackend = map[string]int{}
	}
	for k, v := range o.ByBackend {
		s.ByBackend[k] += v
	}
}

type solver struct {
	cmd       *exec.Cmd
	in        io.WriteCloser
	out       *bufio.Reader
	defined   map[int]bool
	declUF    map[string]bool
	declVar   map[string]bool
	log       []string // base-level script of the current path (for fallback solvers)
	timeoutMs int
	stats     SolverStats
	crossChk  bool // re-ask assertion queries to cvc5 and compare
	tb        *termTable
	seq       int
	buf       bytes.Buffer
	hardPC    bool
}

func newSolver(timeoutMs int) *solver {
	s := &solver{timeoutMs: timeoutMs}
	s.stats.ByBackend = map[string]int{}
	s.start()
	return s
}

func (s *solver) start() {
	cmd := exec.Command("z3", "-in", "-smt2")
	in, err := cmd.StdinPipe()
	if err != nil {
		panic(engineError{"z3 stdin: " + err.Error()})
	}
	out, err := cmd.StdoutPipe()
	if err != nil {
		panic(engineError{"z3 stdout: " + err.Error()})
	}
	cmd.Stderr = os.Stderr
	if err := cmd.Start(); err != nil {
		panic(engineError{"z3 start: " + err.Error()})
	}
	s.cmd, s.in, s.out = cmd, in, bufio.NewReaderSize(out, 1<<16)
}

func (s *solver) close() {
	if s.cmd != nil {
		s.in.Close()
		s.cmd.Process.Kill()
		s.cmd.Wait()
		s.cmd = nil
	}
}

// beginPath resets the solver for a new path over term table tb.
func (s *solver) beginPath(tb *termTable) {
	s.flush()
	s.tb = tb
	s.defined = make(map[int]bool)
	s.declUF = make(map[string]bool)
	s.declVar = make(map[string]bool)
	s.log = s.log[:0]
	s.hardPC = false
	s.raw("(reset)")
	s.raw("(set-option :print-success false)")
	primary := s.timeoutMs
	if primary > 3000 {
		primary = 3000 // portfolio: short cap on the incremental solver, full time-out on the fallbacks
	}
	s.raw(fmt.Sprintf("(set-option :timeout %d)", primary))
}

func (s *solver) raw(line string) {
	s.buf.WriteString(line)
	s.buf.WriteByte('\n')
}

func (s *solver) base(line string) {
	s.log = append(s.log, line)
	s.raw(line)
}

func (s *solver) flush() {
	if s.buf.Len() == 0 {
		return
	}
	if _, err := s.in.Write(s.buf.Bytes()); err != nil {
		panic(engineError{"z3 write: " + err.Error()})
	}
	s.buf.Reset()
}

func smtName(n string) string {
	ok := true
	for _, c := range n {
		if !(c >= 'a' && c <= 'z' || c >= 'A' && c <= 'Z' || c >= '0' && c <= '9' || c == '_' || c == '.') {
			ok = false
			break
		}
	}
	if ok && len(n) > 0 && !(n[0] >= '0' && n[0] <= '9') {
		return n
	}
	return "|" + strings.NewReplacer("|", "!", "\\", "!").Replace(n) + "|"
}

// define emits definitions for every not-yet-defined node of t.
func (s *solver) define(t *term) {
	if t.op == opConst {
		return
	}
	if s.defined[t.id] {
		return
	}
	// iterative post-order
	type fr struct {
		t *term
		i int
	}
	stack := []fr{{t, 0}}
	for len(stack) > 0 {
		top := &stack[len(stack)-1]
		if top.i < len(top.t.args) {
			a := top.t.args[top.i]
			top.i++
			if a.op != opConst && !s.defined[a.id] {
				stack = append(stack, fr{a, 0})
			}
			continue
		}
		n := top.t
		stack = stack[:len(stack)-1]
		if s.defined[n.id] {
			continue
		}
		s.defined[n.id] = true
		switch n.op {
		case opVar:
			if !s.declVar[n.name] {
				s.declVar[n.name] = true
				s.base(fmt.Sprintf("(declare-const %s %s)", smtName(n.name), sortOf(n.w)))
			}
		case opUF:
			if !s.declUF[n.name] {
				s.declUF[n.name] = true
				s.base(s.tb.ufs[n.name])
			}
			s.base(fmt.Sprintf("(define-fun t%d () %s %s)", n.id, sortOf(n.w), bodySMT(n)))
		default:
			s.base(fmt.Sprintf("(define-fun t%d () %s %s)", n.id, sortOf(n.w), bodySMT(n)))
		}
	}
}

func refSMT(t *term) string {
	if t.op == opVar {
		return smtName(t.name)
	}
	return ref(t)
}

func bodySMT(t *term) string {
	switch t.op {
	case opExtract:
		return fmt.Sprintf("((_ extract %d %d) %s)", t.imm0, t.imm1, refSMT(t.args[0]))
	case opZExt:
		return fmt.Sprintf("((_ zero_extend %d) %s)", t.imm0, refSMT(t.args[0]))
	case opSExt:
		return fmt.Sprintf("((_ sign_extend %d) %s)", t.imm0, refSMT(t.args[0]))
	}
	var sb strings.Builder
	sb.WriteByte('(')
	if t.op == opUF {
		sb.WriteString(t.name)
	} else {
		sb.WriteString(opNames[t.op])
	}
	for _, a := range t.args {
		sb.WriteByte(' ')
		sb.WriteString(refSMT(a))
	}
	sb.WriteByte(')')
	return sb.String()
}

// assert adds t to the base-level assertions of the current path.
func (s *solver) assert(t *term) {
	if t.isConst() {
		if t.c == 0 {
			s.base("(assert false)")
		}
		return
	}
	s.define(t)
	if t.hard {
		s.hardPC = true
	}
	s.base(fmt.Sprintf("(assert %s)", refSMT(t)))
}

// check asks whether base ∧ extras is satisfiable.  When wantModel, a model
// over all declared variables (and the terms in evals) is returned for sat.
func (s *solver) check(extras []*term, wantModel bool, evals []*term) (satResult, map[string]uint64, []uint64) {
	hard := s.hardPC
	for _, e := range extras {
		s.define(e)
		if e.hard {
			hard = true
		}
	}
	for _, e := range evals {
		s.define(e)
	}
	var q []string
	q = append(q, "(push 1)")
	for _, e := range extras {
		q = append(q, fmt.Sprintf("(assert %s)", refSMT(e)))
	}
	q = append(q, "(check-sat)")
	for _, l := range q {
		s.raw(l)
	}
	s.seq++
	marker := fmt.Sprintf("@@m%d", s.seq)
	s.raw(fmt.Sprintf("(echo \"%s\")", marker))
	t0 := time.Now()
	s.flush()
	lines := s.readUntil(marker)
	s.stats.Z3Time += time.Since(t0)
	s.stats.Queries++
	res := resUnknown
	bad := false
	for _, l := range lines {
		switch {
		case l == "sat":
			res = resSat
		case l == "unsat":
			res = resUnsat
		case l == "unknown":
			res = resUnknown
		case strings.HasPrefix(l, "(error"):
			bad = true
			fmt.Fprintf(os.Stderr, "gosym: solver error line: %s\n", l)
		}
	}
	if bad {
		s.stats.Errors++
		res = resUnknown
	}
	backend := "z3"
	var model map[string]uint64
	var evalVals []uint64
	if res == resUnknown {
		// fallback portfolio on the logged script
		s.raw("(pop 1)")
		var ok bool
		t1 := time.Now()
		res, model, evalVals, backend, ok = s.fallback(extras, wantModel, evals, hard)
		s.stats.FallbackN++
		s.stats.FallbackT += time.Since(t1)
		if !ok {
			res = resUnknown
		}
	} else {
		if res == resSat && wantModel {
			model, evalVals = s.getModel(evals)
		}
		s.raw("(pop 1)")
	}
	switch res {
	case resSat:
		s.stats.Sat++
	case resUnsat:
		s.stats.Unsat++
	default:
		s.stats.Unknown++
	}
	s.stats.ByBackend[backend]++
	return res, model, evalVals
}

func (s *solver) readUntil(marker string) []string {
	var lines []string
	for {
		l, err := s.out.ReadString('\n')
		if err != nil {
			panic(engineError{"z3 read: " + err.Error() + " (got so far: " + strings.Join(lines, " | ") + ")"})
		}
		l = strings.TrimSpace(l)
		if l == marker || l == "\""+marker+"\"" {
			return lines
		}
		if l != "" {
			lines = append(lines, l)
		}
	}
}

func (s *solver) modelQuery(evals []*term) (string, []string) {
	var names []string
	var sb strings.Builder
	sb.WriteString("(get-value (")
	for _, v := range s.tb.vars {
		if s.declVar[v.name] {
			names = append(names, v.name)
			sb.WriteString(smtName(v.name))
			sb.WriteByte(' ')
		}
	}
	for _, e := range evals {
		sb.WriteString(refSMT(e))
		sb.WriteByte(' ')
	}
	sb.WriteString("))")
	return sb.String(), names
}

func (s *solver) getModel(evals []*term) (map[string]uint64, []uint64) {
	q, names := s.modelQuery(evals)
	if len(names)+len(evals) == 0 {
		return map[string]uint64{}, nil
	}
	s.raw(q)
	s.seq++
	marker := fmt.Sprintf("@@m%d", s.seq)
	s.raw(fmt.Sprintf("(echo \"%s\")", marker))
	s.flush()
	lines := s.readUntil(marker)
	vals := parseValues(strings.Join(lines, " "))
	if len(vals) != len(names)+len(evals) {
		panic(engineError{fmt.Sprintf("model parse: want %d values got %d: %v", len(names)+len(evals), len(vals), lines)})
	}
	m := make(map[string]uint64, len(names))
	for i, n := range names {
		m[n] = vals[i]
	}
	return m, vals[len(names):]
}

// parseValues extracts, in order, the value literal of each (name value) pair
// of a get-value response.
func parseValues(sx string) []uint64 {
	var out []uint64
	// tokens: find "#x..", "#b..", "true", "false", "(_ bvN w)" following a name
	depth := 0
	i := 0
	n := len(sx)
	for i < n {
		c := sx[i]
		switch {
		case c == '(':
			depth++
			i++
		case c == ')':
			depth--
			i++
		case c == '|':
			j := strings.IndexByte(sx[i+1:], '|')
			i += j + 2
			if depth == 2 {
				v, adv := parseOneValue(sx[i:])
				out = append(out, v)
				i += adv
			}
		case c == ' ' || c == '\n' || c == '\t':
			i++
		default:
			j := i
			for j < n && sx[j] != ' ' && sx[j] != ')' && sx[j] != '(' {
				j++
			}
			if depth == 2 {
				// this token was the name (or expression head); the value follows
				i = j
				v, adv := parseOneValue(sx[i:])
				out = append(out, v)
				i += adv
			} else {
				i = j
			}
		}
	}
	return out
}

func parseOneValue(sx string) (uint64, int) {
	i := 0
	for i < len(sx) && (sx[i] == ' ' || sx[i] == '\n') {
		i++
	}
	rest := sx[i:]
	switch {
	case strings.HasPrefix(rest, "#x"):
		j := 2
		for j < len(rest) && isHex(rest[j]) {
			j++
		}
		h := rest[2:j]
		if len(h) > 16 {
			h = h[len(h)-16:]
		}
		v, _ := strconv.ParseUint(h, 16, 64)
		return v, i + j
	case strings.HasPrefix(rest, "#b"):
		j := 2
		for j < len(rest) && (rest[j] == '0' || rest[j] == '1') {
			j++
		}
		b := rest[2:j]
		if len(b) > 64 {
			b = b[len(b)-64:]
		}
		v, _ := strconv.ParseUint(b, 2, 64)
		return v, i + j
	case strings.HasPrefix(rest, "true"):
		return 1, i + 4
	case strings.HasPrefix(rest, "false"):
		return 0, i + 5
	case strings.HasPrefix(rest, "(_ bv"):
		j := 5
		k := j
		for k < len(rest) && rest[k] >= '0' && rest[k] <= '9' {
			k++
		}
		v, _ := strconv.ParseUint(rest[j:k], 10, 64)
		e := strings.IndexByte(rest, ')')
		return v, i + e + 1
	}
	// nested expression we do not understand: skip balanced
	if strings.HasPrefix(rest, "(") {
		d := 0
		for j := 0; j < len(rest); j++ {
			if rest[j] == '(' {
				d++
			} else if rest[j] == ')' {
				d--
				if d == 0 {
					panic(engineError{"cannot parse model value: " + rest[:j+1]})
				}
			}
		}
	}
	panic(engineError{"cannot parse model value near: " + rest})
}

func isHex(c byte) bool {
	return c >= '0' && c <= '9' || c >= 'a' && c <= 'f' || c >= 'A' && c <= 'F'
}

// fallback runs the logged script plus the query on other back ends.
func (s *solver) fallback(extras []*term, wantModel bool, evals []*term, hard bool) (satResult, map[string]uint64, []uint64, string, bool) {
	var script bytes.Buffer
	for _, l := range s.log {
		script.WriteString(l)
		script.WriteByte('\n')
	}
	for _, e := range extras {
		fmt.Fprintf(&script, "(assert %s)\n", refSMT(e))
	}
	script.WriteString("(check-sat)\n")
	mq, names := s.modelQuery(evals)
	if wantModel && len(names)+len(evals) > 0 {
		script.WriteString(mq + "\n")
	}
	secs := s.timeoutMs/1000 + 1
	type be struct {
		name string
		args []string
		pre  string
	}
	var backends []be
	if hard {
		backends = append(backends, be{"cvc5-bvint", []string{"cvc5", "--lang=smt2", "--produce-models", "--solve-bv-as-int=sum", fmt.Sprintf("--tlimit=%d", secs*1000)}, "(set-logic ALL)\n"})
	}
	backends = append(backends,
		be{"cvc5", []string{"cvc5", "--lang=smt2", "--produce-models", fmt.Sprintf("--tlimit=%d", secs*1000)}, "(set-logic ALL)\n"},
		be{"z3-new", []string{"z3-new", "-in", "-smt2", fmt.Sprintf("-T:%d", secs)}, ""},
	)
	for _, b := range backends {
		cmd := exec.Command(b.args[0], b.args[1:]...)
		cmd.Stdin = strings.NewReader(b.pre + script.String())
		outb, _ := cmd.Output()
		out := string(outb)
		lines := strings.SplitN(strings.TrimSpace(out), "\n", 2)
		if len(lines) == 0 {
			continue
		}
		first := strings.TrimSpace(lines[0])
		if first == "unsat" {
			// (the trailing get-value legitimately errors after unsat)
			// an error before the answer would have been the first line
			return resUnsat, nil, nil, b.name, true
		}
		if strings.Contains(out, "(error") {
			continue
		}
		switch first {
		case "unsat":
			return resUnsat, nil, nil, b.name, true
		case "sat":
			if !wantModel {
				return resSat, nil, nil, b.name, true
			}
			if len(names)+len(evals) == 0 {
				return resSat, map[string]uint64{}, nil, b.name, true
			}
			if len(lines) < 2 {
				continue
			}
			vals := parseValues(lines[1])
			if len(vals) != len(names)+len(evals) {
				continue
			}
			m := map[string]uint64{}
			for i, n := range names {
				m[n] = vals[i]
			}
			return resSat, m, vals[len(names):], b.name, true
		}
	}
	if dir := os.Getenv("GOSYM_DUMP_UNKNOWN"); dir != "" {
		os.MkdirAll(dir, 0o755)
		os.WriteFile(fmt.Sprintf("%s/unknown_%d_%d.smt2", dir, os.Getpid(), time.Now().UnixNano()), script.Bytes(), 0o644)
	}
	return resUnknown, nil, nil, "none", false
}

// crossCheck re-asks the query to cvc5 and reports disagreement.
func (s *solver) crossCheck(extras []*term, got satResult) error {
	var script bytes.Buffer
	script.WriteString("(set-logic ALL)\n")
	for _, l := range s.log {
		script.WriteString(l)
		script.WriteByte('\n')
	}
	for _, e := range extras {
		fmt.Fprintf(&script, "(assert %s)\n", refSMT(e))
	}
	script.WriteString("(check-sat)\n")
	// (an inconclusive cross-check is not a disagreement, so it gets a short deadline: queries with a
	// division by 10^6 never come back from cvc5 and would cost the full time-out each)
	limit := s.timeoutMs
	if limit > 5000 {
		limit = 5000
	}
	args := []string{"--lang=smt2", fmt.Sprintf("--tlimit=%d", limit)}
	cmd := exec.Command("cvc5", args...)
	cmd.Stdin = &script
	outb, _ := cmd.Output()
	out := strings.TrimSpace(string(outb))
	s.stats.CrossChecks++
	if strings.Contains(out, "(error") {
		return fmt.Errorf("cvc5 error: %s", out)
	}
	first := strings.SplitN(out, "\n", 2)[0]
	if first == "unknown" || first == "" || strings.Contains(first, "timeout") || strings.Contains(first, "interrupted") {
		return nil // inconclusive cross-check is not a disagreement
	}
	if first != got.String() {
		return fmt.Errorf("solver disagreement: z3=%s cvc5=%s", got, first)
	}
	return nil
}
