package interp

// encoding/binary.Read / Write: the real code is interpreted for the types its
// fast path handles; values of *named* integer/bool types (and pointers to
// them) take the reflection path in the real package, which is modelled here.

import (
	"fmt"
	"go/token"
	"go/types"

	"golang.org/x/tools/go/ssa"
)

func namedBasic(t types.Type) (types.BasicKind, bool) {
	if _, isNamed := t.(*types.Named); !isNamed {
		return 0, false
	}
	b, ok := t.Underlying().(*types.Basic)
	if !ok {
		return 0, false
	}
	switch b.Kind() {
	case types.Bool, types.Int8, types.Int16, types.Int32, types.Int64, types.Uint8, types.Uint16, types.Uint32, types.Uint64:
		return b.Kind(), true
	}
	return 0, false
}

func isLittleEndian(order value) bool {
	o := order.(iface)
	if o.t == nil {
		panic(rtPanic("invalid memory address or nil pointer dereference"))
	}
	s := o.t.String()
	switch s {
	case "encoding/binary.littleEndian":
		return true
	case "encoding/binary.bigEndian":
		return false
	}
	panic(engineError{"unknown byte order " + s})
}

func mkError(fr *frame, msg string) value {
	errsPkg := fr.i.prog.ImportedPackage("errors")
	et := errsPkg.Type("errorString").Type()
	cell := value(structure{msg})
	return iface{t: types.NewPointer(et), v: &cell}
}

func init() {
	reg("encoding/binary.Write", func(fr *frame, args []value) value {
		data := args[2].(iface)
		t := data.t
		v := data.v
		if pt, ok := t.(*types.Pointer); ok {
			if _, nb := namedBasic(pt.Elem()); nb {
				t = pt.Elem()
				v = *derefPtr(v)
			}
		}
		k, ok := namedBasic(t)
		if !ok {
			return callSSAnoIntrinsic(fr.i, fr.caller, fr.fn, args)
		}
		le := isLittleEndian(args[1])
		n := 1
		if k != types.Bool {
			n = kindWidth(k) / 8
		}
		out := make([]value, n)
		if k == types.Bool {
			out[0] = fr.i.iteV(v, uint8(1), uint8(0), types.Uint8)
		} else {
			tt := types.Typ[k]
			for j := 0; j < n; j++ {
				sh := uint(8 * j)
				b := fr.i.convV(types.Typ[types.Uint8], tt, fr.i.binopV(token.SHR, tt, v, sh))
				if le {
					out[j] = b
				} else {
					out[n-1-j] = b
				}
			}
		}
		ifc := args[0].(iface)
		if ifc.t == nil {
			panic(rtPanic("invalid memory address or nil pointer dereference"))
		}
		m := fr.i.prog.LookupMethod(ifc.t, nil, "Write")
		res := call(fr.i, fr, 0, m, []value{ifc.v, out}).(tuple)
		return res[1]
	})
	reg("encoding/binary.Read", func(fr *frame, args []value) value {
		data := args[2].(iface)
		pt, ok := data.t.(*types.Pointer)
		if !ok {
			return callSSAnoIntrinsic(fr.i, fr.caller, fr.fn, args)
		}
		k, ok := namedBasic(pt.Elem())
		if !ok {
			return callSSAnoIntrinsic(fr.i, fr.caller, fr.fn, args)
		}
		le := isLittleEndian(args[1])
		n := 1
		if k != types.Bool {
			n = kindWidth(k) / 8
		}
		buf := make([]value, n)
		for j := range buf {
			buf[j] = uint8(0)
		}
		ioPkg := fr.i.prog.ImportedPackage("io")
		var readFull *ssa.Function
		if ioPkg != nil {
			readFull = ioPkg.Func("ReadFull")
		}
		if readFull == nil {
			panic(engineError{"io.ReadFull not found"})
		}
		res := call(fr.i, fr, 0, readFull, []value{args[0], buf}).(tuple)
		if e := res[1].(iface); e.t != nil {
			return e
		}
		dst := derefPtr(data.v)
		if k == types.Bool {
			*dst = fr.i.notV(fr.i.equalsV(types.Typ[types.Uint8], buf[0], uint8(0)))
			return iface{}
		}
		tt := types.Typ[k]
		var acc value = mkConcrete(k, 0)
		for j := 0; j < n; j++ {
			var b value
			if le {
				b = buf[j]
			} else {
				b = buf[n-1-j]
			}
			wide := fr.i.convV(tt, types.Typ[types.Uint8], b)
			acc = fr.i.binopV(token.OR, tt, acc, fr.i.binopV(token.SHL, tt, wide, uint(8*j)))
		}
		*dst = acc
		return iface{}
	})
}

var _ = fmt.Sprintf

func init() {
	// bsor (reflection based object serialisation of tokenized/pkg) is opaque to the engine: the
	// decode either fails or succeeds leaving the target as it is; the bytes are not interpreted.
	reg("github.com/tokenized/pkg/bsor.UnmarshalBinary", func(fr *frame, args []value) value {
		if fr.i.ex.chooseN("bsor.UnmarshalBinary outcome (opaque)", 2) == 0 {
			return tuple{[]value(nil), mkError(fr, "bsor: opaque decode error")}
		}
		return tuple{[]value(nil), iface{}}
	})
}
