package interp

// Symbolic scalar values, symbolic-aware equality, ordered maps, channels,
// iterators.

import (
	"fmt"
	"go/types"
	"strings"
	"unsafe"
)

// sv is a symbolic scalar: a term plus the Go basic kind it stands for
// (types.Bool, types.Int … types.Uintptr).
type sv struct {
	t *term
	k types.BasicKind
}

func kindWidth(k types.BasicKind) int {
	switch k {
	case types.Bool:
		return 0
	case types.Int8, types.Uint8:
		return 8
	case types.Int16, types.Uint16:
		return 16
	case types.Int32, types.Uint32:
		return 32
	case types.Int, types.Uint, types.Int64, types.Uint64, types.Uintptr:
		return 64
	}
	panic(engineError{fmt.Sprintf("kindWidth: kind %d has no bit-vector width", k)})
}

func kindSigned(k types.BasicKind) bool {
	switch k {
	case types.Int, types.Int8, types.Int16, types.Int32, types.Int64:
		return true
	}
	return false
}

// kindOf returns the basic kind of a concrete scalar value.
func kindOf(x value) (types.BasicKind, bool) {
	switch x := x.(type) {
	case bool:
		return types.Bool, true
	case int:
		return types.Int, true
	case int8:
		return types.Int8, true
	case int16:
		return types.Int16, true
	case int32:
		return types.Int32, true
	case int64:
		return types.Int64, true
	case uint:
		return types.Uint, true
	case uint8:
		return types.Uint8, true
	case uint16:
		return types.Uint16, true
	case uint32:
		return types.Uint32, true
	case uint64:
		return types.Uint64, true
	case uintptr:
		return types.Uintptr, true
	case sv:
		return x.k, true
	}
	return 0, false
}

// basicKindOfType returns the basic kind of an integer/bool type.
func basicKindOfType(t types.Type) types.BasicKind {
	if b, ok := t.Underlying().(*types.Basic); ok {
		k := b.Kind()
		switch k {
		case types.UntypedBool:
			return types.Bool
		case types.UntypedInt:
			return types.Int
		case types.UntypedRune:
			return types.Int32
		}
		return k
	}
	panic(engineError{fmt.Sprintf("basicKindOfType: %s is not basic", t)})
}

// concreteBits returns the bit pattern of a concrete integer/bool value.
func concreteBits(x value) uint64 {
	switch x := x.(type) {
	case bool:
		if x {
			return 1
		}
		return 0
	case int:
		return uint64(x)
	case int8:
		return uint64(uint8(x))
	case int16:
		return uint64(uint16(x))
	case int32:
		return uint64(uint32(x))
	case int64:
		return uint64(x)
	case uint:
		return uint64(x)
	case uint8:
		return uint64(x)
	case uint16:
		return uint64(x)
	case uint32:
		return uint64(x)
	case uint64:
		return x
	case uintptr:
		return uint64(x)
	}
	panic(engineError{fmt.Sprintf("concreteBits: %T", x)})
}

// mkConcrete builds the concrete Go value of kind k from a bit pattern.
func mkConcrete(k types.BasicKind, bits uint64) value {
	switch k {
	case types.Bool:
		return bits != 0
	case types.Int:
		return int(bits)
	case types.Int8:
		return int8(bits)
	case types.Int16:
		return int16(bits)
	case types.Int32:
		return int32(bits)
	case types.Int64:
		return int64(bits)
	case types.Uint:
		return uint(bits)
	case types.Uint8:
		return uint8(bits)
	case types.Uint16:
		return uint16(bits)
	case types.Uint32:
		return uint32(bits)
	case types.Uint64:
		return bits
	case types.Uintptr:
		return uintptr(bits)
	}
	panic(engineError{fmt.Sprintf("mkConcrete: kind %d", k)})
}

// toTerm lifts a scalar value (concrete or symbolic) to a term.
func (i *interpreter) toTerm(x value) (*term, types.BasicKind) {
	if s, ok := x.(sv); ok {
		return s.t, s.k
	}
	k, ok := kindOf(x)
	if !ok {
		panic(engineError{fmt.Sprintf("toTerm: %T is not a scalar", x)})
	}
	tb := i.ex.tb
	if k == types.Bool {
		return tb.constBool(x.(bool)), k
	}
	return tb.constBV(kindWidth(k), concreteBits(x)), k
}

// norm turns a constant term back into a concrete value.
func norm(t *term, k types.BasicKind) value {
	if t.isConst() && t.w <= 64 {
		return mkConcrete(k, t.c)
	}
	return sv{t, k}
}

func isSym(x value) bool {
	_, ok := x.(sv)
	return ok
}

// containsSym reports whether a (possibly aggregate) value has a symbolic leaf.
func containsSym(x value) bool {
	switch x := x.(type) {
	case sv:
		return true
	case array:
		for _, e := range x {
			if containsSym(e) {
				return true
			}
		}
	case structure:
		for _, e := range x {
			if containsSym(e) {
				return true
			}
		}
	case iface:
		return containsSym(x.v)
	case symString:
		return true
	}
	return false
}

// symString is a string whose content is not a Go constant: either a
// sequence of (possibly symbolic) bytes, or a formatted string.
type symString struct {
	bytes  []value // when non-nil: byte sequence
	format string  // when bytes == nil: fmt format with args
	args   []value
}

// ---------------------------------------------------------------------------
// equality

// equalsV compares x and y of static type t and returns bool or sv(Bool).
func (i *interpreter) equalsV(t types.Type, x, y value) value {
	tb := i.ex.tb
	switch x := x.(type) {
	case sv:
		ty, _ := i.toTerm(y)
		return norm(tb.eq(x.t, ty), types.Bool)
	case structure:
		ys := y.(structure)
		tStruct := t.Underlying().(*types.Struct)
		var acc value = true
		for j, n := 0, tStruct.NumFields(); j < n; j++ {
			f := tStruct.Field(j)
			if f.Name() == "_" {
				continue
			}
			acc = i.andV(acc, i.equalsV(f.Type(), x[j], ys[j]))
			if b, ok := acc.(bool); ok && !b {
				return false
			}
		}
		return acc
	case array:
		ya := y.(array)
		tElt := t.Underlying().(*types.Array).Elem()
		var acc value = true
		for j := range x {
			acc = i.andV(acc, i.equalsV(tElt, x[j], ya[j]))
			if b, ok := acc.(bool); ok && !b {
				return false
			}
		}
		return acc
	case iface:
		yi := y.(iface)
		if !sameType(x.t, yi.t) {
			return false
		}
		if x.t == nil {
			return true
		}
		return i.equalsV(x.t, x.v, yi.v)
	case symString:
		return i.symStringEq(x, y)
	case string:
		if ys, ok := y.(symString); ok {
			return i.symStringEq(ys, x)
		}
		return x == y.(string)
	}
	if ys, ok := y.(sv); ok {
		tx, _ := i.toTerm(x)
		return norm(tb.eq(tx, ys.t), types.Bool)
	}
	return equals(t, x, y)
}

func (i *interpreter) andV(x, y value) value {
	if b, ok := x.(bool); ok {
		if !b {
			return false
		}
		return y
	}
	if b, ok := y.(bool); ok {
		if !b {
			return false
		}
		return x
	}
	return norm(i.ex.tb.and(x.(sv).t, y.(sv).t), types.Bool)
}

func (i *interpreter) orV(x, y value) value {
	if b, ok := x.(bool); ok {
		if b {
			return true
		}
		return y
	}
	if b, ok := y.(bool); ok {
		if b {
			return true
		}
		return x
	}
	return norm(i.ex.tb.or(x.(sv).t, y.(sv).t), types.Bool)
}

func (i *interpreter) notV(x value) value {
	if b, ok := x.(bool); ok {
		return !b
	}
	return norm(i.ex.tb.not(x.(sv).t), types.Bool)
}

// nil-tolerant variant of types.Identical.
func sameType(x, y types.Type) bool {
	if x == nil {
		return y == nil
	}
	return y != nil && types.Identical(x, y)
}

// equals is concrete equality (no symbolic leaves on either side).
func equals(t types.Type, x, y value) bool {
	switch x := x.(type) {
	case bool:
		return x == y.(bool)
	case int:
		return x == y.(int)
	case int8:
		return x == y.(int8)
	case int16:
		return x == y.(int16)
	case int32:
		return x == y.(int32)
	case int64:
		return x == y.(int64)
	case uint:
		return x == y.(uint)
	case uint8:
		return x == y.(uint8)
	case uint16:
		return x == y.(uint16)
	case uint32:
		return x == y.(uint32)
	case uint64:
		return x == y.(uint64)
	case uintptr:
		return x == y.(uintptr)
	case float32:
		return x == y.(float32)
	case float64:
		return x == y.(float64)
	case complex64:
		return x == y.(complex64)
	case complex128:
		return x == y.(complex128)
	case string:
		return x == y.(string)
	case *value:
		return x == y.(*value)
	case *channel:
		return x == y.(*channel)
	case unsafe.Pointer:
		return x == y.(unsafe.Pointer)
	case structure:
		ys := y.(structure)
		tStruct := t.Underlying().(*types.Struct)
		for j, n := 0, tStruct.NumFields(); j < n; j++ {
			if f := tStruct.Field(j); f.Name() != "_" {
				if !equals(f.Type(), x[j], ys[j]) {
					return false
				}
			}
		}
		return true
	case array:
		ya := y.(array)
		tElt := t.Underlying().(*types.Array).Elem()
		for j, xi := range x {
			if !equals(tElt, xi, ya[j]) {
				return false
			}
		}
		return true
	case iface:
		yi := y.(iface)
		return sameType(x.t, yi.t) && (x.t == nil || equals(x.t, x.v, yi.v))
	}
	if ps, ok := x.(poison); ok {
		panic(engineError{"comparison with uninitialised global " + ps.what})
	}
	if ps, ok := y.(poison); ok {
		panic(engineError{"comparison with uninitialised global " + ps.what})
	}
	panic(targetPanic{v: fmt.Sprintf("runtime error: comparing uncomparable type %s", t)})
}

// keyString renders a fully concrete comparable value as a string usable as a
// Go map key (fast path of omap).
func keyString(sb *strings.Builder, x value) {
	switch x := x.(type) {
	case bool, int, int8, int16, int32, int64, uint, uint8, uint16, uint32, uint64, uintptr, float32, float64, complex64, complex128:
		fmt.Fprintf(sb, "%v;", x)
	case string:
		fmt.Fprintf(sb, "%d:%s;", len(x), x)
	case *value:
		fmt.Fprintf(sb, "%p;", x)
	case *channel:
		fmt.Fprintf(sb, "%p;", x)
	case unsafe.Pointer:
		fmt.Fprintf(sb, "%p;", x)
	case structure:
		sb.WriteByte('{')
		for _, e := range x {
			keyString(sb, e)
		}
		sb.WriteByte('}')
	case array:
		sb.WriteByte('[')
		if len(x) > 0 {
			if _, ok := x[0].(uint8); ok {
				for _, e := range x {
					if b, ok := e.(uint8); ok {
						sb.WriteByte("0123456789abcdef"[b>>4])
						sb.WriteByte("0123456789abcdef"[b&15])
					} else {
						keyString(sb, e)
					}
				}
				sb.WriteByte(']')
				return
			}
		}
		for _, e := range x {
			keyString(sb, e)
		}
		sb.WriteByte(']')
	case iface:
		if x.t == nil {
			sb.WriteString("<nil>;")
			return
		}
		sb.WriteString(x.t.String())
		sb.WriteByte('(')
		keyString(sb, x.v)
		sb.WriteByte(')')
	default:
		panic(targetPanic{v: fmt.Sprintf("runtime error: hash of unhashable type %T", x)})
	}
}

// ---------------------------------------------------------------------------
// ordered map

type oent struct {
	key  value
	val  value
	sym  bool // key has symbolic leaves
	dead bool
}

type omap struct {
	kt    types.Type
	ents  []*oent
	idx   map[string]*oent // concrete keys only
	nsym  int              // live entries with symbolic keys
	nlive int
}

func makeMap(kt types.Type) *omap {
	return &omap{kt: kt, idx: make(map[string]*oent)}
}

func concreteKey(k value) string {
	var sb strings.Builder
	keyString(&sb, k)
	return sb.String()
}

// find returns the entry equal to k, deciding symbolic equalities through the
// path explorer.
func (m *omap) find(i *interpreter, k value) *oent {
	if m == nil {
		return nil
	}
	ksym := containsSym(k)
	if !ksym {
		if e, ok := m.idx[concreteKey(k)]; ok {
			return e
		}
		if m.nsym == 0 {
			return nil
		}
		for _, e := range m.ents {
			if e.dead || !e.sym {
				continue
			}
			if i.decideV(i.equalsV(m.kt, e.key, k)) {
				return e
			}
		}
		return nil
	}
	for _, e := range m.ents {
		if e.dead {
			continue
		}
		if i.decideV(i.equalsV(m.kt, e.key, k)) {
			return e
		}
	}
	return nil
}

func (m *omap) insert(i *interpreter, k, v value) {
	if m == nil {
		panic(targetPanic{v: "assignment to entry in nil map"})
	}
	if e := m.find(i, k); e != nil {
		e.val = v
		return
	}
	e := &oent{key: k, val: v, sym: containsSym(k)}
	m.ents = append(m.ents, e)
	m.nlive++
	if e.sym {
		m.nsym++
	} else {
		m.idx[concreteKey(k)] = e
	}
}

func (m *omap) delete(i *interpreter, k value) {
	if m == nil {
		return
	}
	e := m.find(i, k)
	if e == nil {
		return
	}
	e.dead = true
	m.nlive--
	if e.sym {
		m.nsym--
	} else {
		delete(m.idx, concreteKey(e.key))
	}
	// compact occasionally
	if len(m.ents) > 32 && m.nlive*2 < len(m.ents) {
		var live []*oent
		for _, e := range m.ents {
			if !e.dead {
				live = append(live, e)
			}
		}
		m.ents = live
	}
}

func (m *omap) len() int {
	if m == nil {
		return 0
	}
	return m.nlive
}

// ---------------------------------------------------------------------------
// channels

type channel struct {
	buf    []value
	cap    int
	closed bool
	id     int
	// timer channels (time.After): fires when the virtual clock reaches at.
	timer   bool
	fireAt  value // int64 ns (concrete or symbolic)
	fired   bool
	elemT   types.Type
	comment string
}

// ---------------------------------------------------------------------------
// iterators

type iter interface {
	next() tuple
}

type stringIter struct {
	s string
	i int
}

func (it *stringIter) next() tuple {
	okv := make(tuple, 3)
	if it.i >= len(it.s) {
		okv[0] = false
		return okv
	}
	okv[0] = true
	okv[1] = it.i
	for j, ch := range it.s[it.i:] {
		_ = j
		okv[2] = ch
		break
	}
	// advance by rune length
	n := 1
	for n < 4 && it.i+n < len(it.s) && (it.s[it.i+n]&0xC0) == 0x80 && it.s[it.i] >= 0xC0 {
		n++
	}
	it.i += n
	return okv
}

type omapIter struct {
	m    *omap
	snap []*oent
	i    int
}

func (it *omapIter) next() tuple {
	for it.i < len(it.snap) {
		e := it.snap[it.i]
		it.i++
		if e.dead {
			continue
		}
		return tuple{true, e.key, e.val}
	}
	return tuple{false, nil, nil}
}
