// Package interp is a symbolic interpreter for go/ssa programs.
//
// The concrete skeleton (instruction dispatch, frames, defer/panic/recover,
// method lookup, conversions) is derived from golang.org/x/tools/go/ssa/interp
// (Copyright 2013 The Go Authors, BSD-style licence).  Scalars may be SMT terms
// (sv); branches on them are decided by a solver through pathExec; channels,
// maps, time, hashing and synchronisation are modelled (see intrinsics.go).
package interp

import (
	"fmt"
	"go/token"
	"go/types"
	"os"
	"slices"
	"strings"
	"sync"

	"golang.org/x/tools/go/ssa"
)

type continuation int

const (
	kNext continuation = iota
	kReturn
	kJump
)

// engineError is raised (as a Go panic) when the interpreter meets something
// it cannot model.  It is never a verdict about the target.
type engineError struct{ msg string }

func (e engineError) Error() string { return "engine error: " + e.msg }

// pathEnd terminates the current path without a verdict about the target
// (Assume(false), cut, step budget …).
type pathEnd struct {
	reason string
}

// blockedPanic unwinds a sequential unit that would block forever.
type blockedPanic struct {
	what string
}

// If the target program panics, the interpreter panics with this type.
type targetPanic struct {
	v     value
	rt    bool   // runtime error raised by the interpreter on the target's behalf
	where string // target stack at the point of the panic
}

func (p targetPanic) String() string {
	return toString(p.v)
}

func rtPanic(format string, args ...interface{}) targetPanic {
	return targetPanic{v: "runtime error: " + fmt.Sprintf(format, args...), rt: true}
}

// interpreter is the state of one path execution.
type interpreter struct {
	prog               *ssa.Program
	globals            map[*ssa.Global]*value
	runtimeErrorString types.Type
	sizes              types.Sizes
	ex                 *pathExec
	cfg                *Config
	steps              int64
	stepBudget         int64
	initDone           map[*ssa.Package]bool
	inInit             int
	funcsRun           map[*ssa.Function]int64
	spawned            []*spawnedGo
	chanSeq            int
	mutexes            map[*value]*mutexState
	trace              bool
	curFrame           *frame
}

type spawnedGo struct {
	fn   value
	args []value
	pos  token.Pos
	done bool
}

type deferred struct {
	fn    value
	args  []value
	instr *ssa.Defer
	tail  *deferred
}

type frame struct {
	i                *interpreter
	caller           *frame
	fn               *ssa.Function
	block, prevBlock *ssa.BasicBlock
	env              []value
	cf               *cfunc
	dst              int32 // slot of the instruction being executed
	locals           []value
	defers           *deferred
	result           value
	panicking        bool
	panic            interface{}
	phitemps         []value
	curInstr         ssa.Instruction
}

func (fr *frame) get(key ssa.Value) value {
	switch key := key.(type) {
	case nil:
		return nil
	case *ssa.Function, *ssa.Builtin:
		return key
	case *ssa.Const:
		return constValue(key)
	case *ssa.Global:
		return fr.i.global(key)
	}
	if sl, ok := fr.cf.slot[key]; ok {
		return fr.env[sl]
	}
	panic(engineError{fmt.Sprintf("get: no value for %T: %v", key, key.Name())})
}

func (i *interpreter) global(g *ssa.Global) *value {
	if r, ok := i.globals[g]; ok {
		return r
	}
	cell := zero(deref(g.Type()))
	if g.Pkg != nil && !i.cfg.initAllowed(g.Pkg.Pkg.Path()) && !i.cfg.zeroInitOK(g) {
		cell = poisonFor(deref(g.Type()), g.String())
	}
	i.globals[g] = &cell
	return &cell
}

// poison marks a global whose package initialiser was not run.
type poison struct{ what string }

func poisonFor(t types.Type, what string) value {
	return poison{what}
}

func deref(t types.Type) types.Type {
	if p, ok := t.Underlying().(*types.Pointer); ok {
		return p.Elem()
	}
	panic(engineError{fmt.Sprintf("deref of non-pointer %s", t)})
}

func (fr *frame) runDefer(d *deferred) {
	var ok bool
	defer func() {
		if !ok {
			r := recover()
			if _, isT := r.(targetPanic); !isT {
				panic(r)
			}
			fr.panicking = true
			fr.panic = r
		}
	}()
	call(fr.i, fr, d.instr.Pos(), d.fn, d.args)
	ok = true
}

func (fr *frame) runDefers() {
	for d := fr.defers; d != nil; d = d.tail {
		fr.runDefer(d)
	}
	fr.defers = nil
	if fr.panicking {
		panic(fr.panic)
	}
}

func lookupMethod(i *interpreter, typ types.Type, meth *types.Func) *ssa.Function {
	return i.prog.LookupMethod(typ, meth.Pkg(), meth.Name())
}

func (fr *frame) pos() string {
	if fr == nil || fr.curInstr == nil {
		return ""
	}
	p := fr.curInstr.Pos()
	if p == token.NoPos {
		return fr.fn.String()
	}
	return fr.fn.String() + " " + fr.i.prog.Fset.Position(p).String()
}

func (i *interpreter) whereShort() string {
	if i.curFrame == nil {
		return ""
	}
	return shortPos(i.curFrame.pos())
}

func (fr *frame) stack() string {
	var sb strings.Builder
	for f := fr; f != nil; f = f.caller {
		sb.WriteString("  ")
		sb.WriteString(f.pos())
		sb.WriteByte('\n')
	}
	return sb.String()
}

// derefPtr checks a pointer for nil on behalf of the target.
func derefPtr(x value) *value {
	p, ok := x.(*value)
	if !ok {
		if ps, isP := x.(poison); isP {
			panic(engineError{"use of uninitialised global " + ps.what})
		}
		panic(engineError{fmt.Sprintf("pointer expected, got %T", x)})
	}
	if p == nil {
		panic(rtPanic("invalid memory address or nil pointer dereference"))
	}
	return p
}

func visitInstr(fr *frame, instr ssa.Instruction) continuation {
	i := fr.i
	switch instr := instr.(type) {
	case *ssa.DebugRef:
		// no-op

	case *ssa.UnOp:
		fr.env[fr.dst] = i.unop(fr, instr, fr.get(instr.X))

	case *ssa.BinOp:
		fr.env[fr.dst] = i.binopV(instr.Op, instr.X.Type(), fr.get(instr.X), fr.get(instr.Y))

	case *ssa.Call:
		fn, args := prepareCall(fr, &instr.Call)
		fr.env[fr.dst] = call(fr.i, fr, instr.Pos(), fn, args)

	case *ssa.ChangeInterface:
		fr.env[fr.dst] = fr.get(instr.X)

	case *ssa.ChangeType:
		fr.env[fr.dst] = fr.get(instr.X)

	case *ssa.Convert:
		fr.env[fr.dst] = i.convV(instr.Type(), instr.X.Type(), fr.get(instr.X))

	case *ssa.SliceToArrayPointer:
		fr.env[fr.dst] = sliceToArrayPointer(instr.Type(), instr.X.Type(), fr.get(instr.X))

	case *ssa.MakeInterface:
		if ps, isP := fr.get(instr.X).(poison); isP {
			fr.env[fr.dst] = ps
			break
		}
		fr.env[fr.dst] = iface{t: instr.X.Type(), v: fr.get(instr.X)}

	case *ssa.Extract:
		if ps, isP := fr.get(instr.Tuple).(poison); isP {
			fr.env[fr.dst] = ps
			break
		}
		fr.env[fr.dst] = fr.get(instr.Tuple).(tuple)[instr.Index]

	case *ssa.Slice:
		fr.env[fr.dst] = i.sliceOp(fr.get(instr.X), fr.get(instr.Low), fr.get(instr.High), fr.get(instr.Max))

	case *ssa.Return:
		switch len(instr.Results) {
		case 0:
		case 1:
			fr.result = fr.get(instr.Results[0])
		default:
			var res []value
			for _, r := range instr.Results {
				res = append(res, fr.get(r))
			}
			fr.result = tuple(res)
		}
		fr.block = nil
		return kReturn

	case *ssa.RunDefers:
		fr.runDefers()

	case *ssa.Panic:
		panic(targetPanic{v: fr.get(instr.X)})

	case *ssa.Send:
		i.chanSend(fr, fr.get(instr.Chan).(*channel), fr.get(instr.X))

	case *ssa.Store:
		if _, isP := fr.get(instr.Addr).(poison); isP && fr.i.inInit > 0 {
			break
		}
		if ps, isP := fr.get(instr.Val).(poison); isP {
			*derefPtr(fr.get(instr.Addr)) = ps
			break
		}
		store(deref(instr.Addr.Type()), derefPtr(fr.get(instr.Addr)), fr.get(instr.Val))

	case *ssa.If:
		succ := 1
		if i.decideV(fr.get(instr.Cond)) {
			succ = 0
		}
		fr.prevBlock, fr.block = fr.block, fr.block.Succs[succ]
		return kJump

	case *ssa.Jump:
		fr.prevBlock, fr.block = fr.block, fr.block.Succs[0]
		return kJump

	case *ssa.Defer:
		fn, args := prepareCall(fr, &instr.Call)
		defers := &fr.defers
		if into := fr.get(instr.DeferStack); into != nil {
			defers = into.(**deferred)
		}
		*defers = &deferred{
			fn:    fn,
			args:  args,
			instr: instr,
			tail:  *defers,
		}

	case *ssa.Go:
		fn, args := prepareCall(fr, &instr.Call)
		if i.ex != nil && i.ex.sched != nil {
			i.ex.sched.spawn(fn, args, instr.Pos())
		} else {
			i.spawned = append(i.spawned, &spawnedGo{fn: fn, args: args, pos: instr.Pos()})
		}

	case *ssa.MakeChan:
		n := i.concreteInt(fr.get(instr.Size), "make(chan) size", 64)
		i.chanSeq++
		fr.env[fr.dst] = &channel{cap: int(n), id: i.chanSeq, elemT: instr.Type().Underlying().(*types.Chan).Elem()}

	case *ssa.Alloc:
		var addr *value
		if instr.Heap {
			addr = new(value)
			fr.env[fr.dst] = addr
		} else {
			addr = fr.env[fr.dst].(*value)
		}
		*addr = zero(deref(instr.Type()))

	case *ssa.MakeSlice:
		tElt := instr.Type().Underlying().(*types.Slice).Elem()
		fr.env[fr.dst] = i.makeSlice(fr, tElt, fr.get(instr.Len), fr.get(instr.Cap))

	case *ssa.MakeMap:
		fr.env[fr.dst] = makeMap(instr.Type().Underlying().(*types.Map).Key())

	case *ssa.Range:
		fr.env[fr.dst] = rangeIter(fr.get(instr.X), instr.X.Type())

	case *ssa.Next:
		fr.env[fr.dst] = fr.get(instr.Iter).(iter).next()

	case *ssa.FieldAddr:
		if ps, isP := fr.get(instr.X).(poison); isP {
			fr.env[fr.dst] = ps
			break
		}
		p := derefPtr(fr.get(instr.X))
		s, ok := (*p).(structure)
		if !ok {
			if ps, isP := (*p).(poison); isP {
				fr.env[fr.dst] = ps
				break
			}
			panic(engineError{fmt.Sprintf("FieldAddr on %T", *p)})
		}
		fr.env[fr.dst] = &s[instr.Field]

	case *ssa.Field:
		if ps, isP := fr.get(instr.X).(poison); isP {
			fr.env[fr.dst] = ps
			break
		}
		fr.env[fr.dst] = fr.get(instr.X).(structure)[instr.Field]

	case *ssa.IndexAddr:
		x := fr.get(instr.X)
		switch x := x.(type) {
		case []value:
			idx := i.indexIn(fr.get(instr.Index), len(x))
			fr.env[fr.dst] = &x[idx]
		case *value: // *array
			if x == nil {
				panic(rtPanic("invalid memory address or nil pointer dereference"))
			}
			a, ok := (*x).(array)
			if !ok {
				if ps, isP := (*x).(poison); isP {
					panic(engineError{"use of uninitialised global " + ps.what})
				}
				panic(engineError{fmt.Sprintf("IndexAddr on *%T", *x)})
			}
			idx := i.indexIn(fr.get(instr.Index), len(a))
			fr.env[fr.dst] = &a[idx]
		default:
			panic(engineError{fmt.Sprintf("unexpected x type in IndexAddr: %T", x)})
		}

	case *ssa.Index:
		x := fr.get(instr.X)
		switch x := x.(type) {
		case array:
			idx := i.indexIn(fr.get(instr.Index), len(x))
			fr.env[fr.dst] = x[idx]
		case string:
			idx := i.indexIn(fr.get(instr.Index), len(x))
			fr.env[fr.dst] = x[idx]
		case symString:
			if x.bytes == nil {
				panic(engineError{"index into formatted symbolic string"})
			}
			idx := i.indexIn(fr.get(instr.Index), len(x.bytes))
			fr.env[fr.dst] = x.bytes[idx]
		default:
			panic(engineError{fmt.Sprintf("unexpected x type in Index: %T", x)})
		}

	case *ssa.Lookup:
		fr.env[fr.dst] = i.lookup(instr, fr.get(instr.X), fr.get(instr.Index))

	case *ssa.MapUpdate:
		m := fr.get(instr.Map)
		key := fr.get(instr.Key)
		v := fr.get(instr.Value)
		switch m := m.(type) {
		case *omap:
			m.insert(i, copyVal(key), v)
		default:
			panic(engineError{fmt.Sprintf("illegal map type: %T", m)})
		}

	case *ssa.TypeAssert:
		fr.env[fr.dst] = typeAssert(fr.i, instr, fr.get(instr.X).(iface))

	case *ssa.MakeClosure:
		var bindings []value
		for _, binding := range instr.Bindings {
			bindings = append(bindings, fr.get(binding))
		}
		fr.env[fr.dst] = &closure{instr.Fn.(*ssa.Function), bindings}

	case *ssa.Phi:
		panic(engineError{"unreachable phi"})

	case *ssa.Select:
		fr.env[fr.dst] = i.selectOp(fr, instr)

	default:
		panic(engineError{fmt.Sprintf("unexpected instruction: %T", instr)})
	}
	return kNext
}

// copyVal makes an unaliased copy of an aggregate value.
func copyVal(v value) value {
	switch v := v.(type) {
	case structure:
		a := make(structure, len(v))
		for i := range v {
			a[i] = copyVal(v[i])
		}
		return a
	case array:
		a := make(array, len(v))
		for i := range v {
			a[i] = copyVal(v[i])
		}
		return a
	}
	return v
}

func prepareCall(fr *frame, call *ssa.CallCommon) (fn value, args []value) {
	v := fr.get(call.Value)
	if ps, isP := v.(poison); isP {
		if fr.i.inInit > 0 {
			return &nativeFunc{name: "poison", f: func(_ *frame, _ []value) value {
				sig := call.Signature()
				switch sig.Results().Len() {
				case 0:
					return nil
				case 1:
					return ps
				}
				t := make(tuple, sig.Results().Len())
				for j := range t {
					t[j] = ps
				}
				return t
			}}, nil
		}
		panic(engineError{"call through uninitialised global " + ps.what})
	}
	if call.Method == nil {
		fn = v
	} else {
		recv := v.(iface)
		if recv.t == nil {
			panic(rtPanic("invalid memory address or nil pointer dereference (method %s invoked on nil interface)", call.Method.Name()))
		}
		if f := lookupMethod(fr.i, recv.t, call.Method); f == nil {
			panic(engineError{fmt.Sprintf("method set for dynamic type %v does not contain %s", recv.t, call.Method)})
		} else {
			fn = f
		}
		args = append(args, recv.v)
	}
	for _, arg := range call.Args {
		args = append(args, fr.get(arg))
	}
	return
}

func call(i *interpreter, caller *frame, callpos token.Pos, fn value, args []value) value {
	switch fn := fn.(type) {
	case *ssa.Function:
		if fn == nil {
			panic(rtPanic("invalid memory address or nil pointer dereference (call of nil func)"))
		}
		return callSSA(i, caller, callpos, fn, args, nil)
	case *closure:
		return callSSA(i, caller, callpos, fn.Fn, args, fn.Env)
	case *ssa.Builtin:
		return callBuiltin(caller, callpos, fn, args)
	case *nativeFunc:
		return fn.f(caller, args)
	}
	panic(engineError{fmt.Sprintf("cannot call %T", fn)})
}

// nativeFunc is an engine-provided func value handed to the target.
type nativeFunc struct {
	name string
	f    func(fr *frame, args []value) value
}

func callSSA(i *interpreter, caller *frame, callpos token.Pos, fn *ssa.Function, args []value, env []value) value {
	fr := &frame{
		i:      i,
		caller: caller,
		fn:     fn,
	}
	if i.trace {
		fmt.Fprintf(os.Stderr, "%*scall %s\n", depthOf(caller), "", fn.String())
	}
	info := i.fnInfo(fn)
	switch info.kind {
	case fkIntrinsic:
		return info.intr(fr, args)
	case fkStub:
		return stubCall(fr, fn, args)
	case fkInitSkip:
		return nil
	case fkInit:
		i.inInit++
		defer func() { i.inInit-- }()
	case fkOpaque:
		if i.inInit > 0 {
			return poisonResult(fn)
		}
		panic(engineError{"call into opaque package: " + info.name + "\n" + caller.stack()})
	case fkNoCode:
		if i.inInit > 0 {
			return poisonResult(fn)
		}
		panic(engineError{"no code for function: " + info.name + "\n" + caller.stack()})
	}
	if fn.TypeParams().Len() > 0 && len(fn.TypeArgs()) == 0 {
		panic(engineError{"uninstantiated generic function " + fn.String()})
	}

	cf := compileFunc(fn)
	fr.cf = cf
	fr.env = make([]value, cf.nslots)
	fr.block = fn.Blocks[0]
	fr.locals = make([]value, len(fn.Locals))
	for j, l := range fn.Locals {
		fr.locals[j] = zero(deref(l.Type()))
		fr.env[cf.slot[l]] = &fr.locals[j]
	}
	for j, p := range fn.Params {
		fr.env[cf.slot[p]] = args[j]
	}
	for j, fv := range fn.FreeVars {
		fr.env[cf.slot[fv]] = env[j]
	}
	start := i.steps
	for fr.block != nil {
		runFrame(fr)
	}
	if i.funcsRun != nil {
		i.funcsRun[fn] += i.steps - start
	}
	return fr.result
}

type fnKind uint8

const (
	fkNormal fnKind = iota
	fkIntrinsic
	fkStub
	fkInitSkip
	fkInit
	fkOpaque
	fkNoCode
)

type fnInfoT struct {
	kind fnKind
	intr intrinsic
	name string
}

var fnInfoCache sync.Map // *ssa.Function -> *fnInfoT (configuration is the same for every run of a process)

func (i *interpreter) fnInfo(fn *ssa.Function) *fnInfoT {
	if v, ok := fnInfoCache.Load(fn); ok {
		return v.(*fnInfoT)
	}
	info := &fnInfoT{kind: fkNormal}
	if fn.Parent() == nil {
		name := fn.String()
		info.name = name
		switch {
		case intrinsics[name] != nil:
			info.kind, info.intr = fkIntrinsic, intrinsics[name]
		case i.cfg.SkipFuncs[name]:
			info.kind = fkStub
		case fn.Pkg != nil:
			path := fn.Pkg.Pkg.Path()
			switch {
			case i.cfg.stubbed(path):
				info.kind = fkStub
			case fn.Synthetic != "" && fn.Name() == "init":
				if i.cfg.initAllowed(path) {
					info.kind = fkInit
				} else {
					info.kind = fkInitSkip
				}
			case i.cfg.opaque(path):
				info.kind = fkOpaque
			case fn.Blocks == nil:
				info.kind = fkNoCode
			}
		default:
			if origin := fn.Origin(); origin != nil && origin.Pkg != nil && i.cfg.opaque(origin.Pkg.Pkg.Path()) {
				info.kind = fkOpaque
			} else if fn.Blocks == nil {
				info.kind = fkNoCode
			}
		}
	}
	fnInfoCache.Store(fn, info)
	return info
}

func depthOf(fr *frame) int {
	n := 0
	for f := fr; f != nil; f = f.caller {
		n++
	}
	return n
}

func poisonResult(fn *ssa.Function) value {
	res := fn.Signature.Results()
	switch res.Len() {
	case 0:
		return nil
	case 1:
		return poison{"result of " + fn.String()}
	}
	t := make(tuple, res.Len())
	for j := range t {
		t[j] = poison{"result of " + fn.String()}
	}
	return t
}

func runFrame(fr *frame) {
	defer func() {
		if fr.block == nil {
			return // normal return
		}
		r := recover()
		tp, isTarget := r.(targetPanic)
		if !isTarget {
			// engine error, path end, blocked unit, or interpreter bug
			if _, ok := r.(engineError); !ok {
				if _, ok := r.(pathEnd); !ok {
					if _, ok := r.(blockedPanic); !ok {
						if _, ok := r.(engineBug); !ok {
							if _, ok := r.(coroKilled); !ok {
								r = engineBug{r: r, where: fr.stack()}
							}
						}
					}
				}
			}
			panic(r)
		}
		if fr.i.inInit > 0 {
			// a failure while initialising a package poisons the init only
		}
		if tp.where == "" {
			tp.where = fr.stack()
		}
		fr.panicking = true
		fr.panic = tp
		fr.runDefers()
		fr.block = fr.fn.Recover
	}()

	i := fr.i
	for {
		nonPhis, dsts := executePhis(fr)
		for k, instr := range nonPhis {
			fr.dst = dsts[k]
			i.steps++
			if i.steps > i.stepBudget {
				panic(pathEnd{reason: "step-budget"})
			}
			fr.curInstr = instr
			i.curFrame = fr
			if i.trace {
				if v, ok := instr.(ssa.Value); ok {
					fmt.Fprintf(os.Stderr, "%*s  %s = %s\n", depthOf(fr), "", v.Name(), instr)
				} else {
					fmt.Fprintf(os.Stderr, "%*s  %s\n", depthOf(fr), "", instr)
				}
			}
			if visitInstr(fr, instr) == kReturn {
				return
			}
		}
	}
}

// engineBug wraps an unexpected Go panic inside the interpreter.
type engineBug struct {
	r     interface{}
	where string
}

func executePhis(fr *frame) ([]ssa.Instruction, []int32) {
	cb := &fr.cf.blocks[fr.block.Index]
	if cb.firstNonPhi > 0 {
		phis := fr.block.Instrs[:cb.firstNonPhi]
		predIndex := slices.Index(fr.block.Preds, fr.prevBlock)
		fr.phitemps = fr.phitemps[:0]
		for _, phi := range phis {
			phi := phi.(*ssa.Phi)
			fr.phitemps = append(fr.phitemps, fr.get(phi.Edges[predIndex]))
		}
		for j := range phis {
			fr.env[cb.dst[j]] = fr.phitemps[j]
		}
	}
	return fr.block.Instrs[cb.firstNonPhi:], cb.dst[cb.firstNonPhi:]
}

// cfunc is the per-function slot assignment (shared, read-only once built).
type cfunc struct {
	slot   map[ssa.Value]int32
	nslots int
	blocks []cblock
}

type cblock struct {
	firstNonPhi int
	dst         []int32 // slot written by each instruction (-1 if none)
}

var cfuncCache sync.Map

func compileFunc(fn *ssa.Function) *cfunc {
	if v, ok := cfuncCache.Load(fn); ok {
		return v.(*cfunc)
	}
	cf := &cfunc{slot: make(map[ssa.Value]int32)}
	n := int32(0)
	add := func(v ssa.Value) int32 {
		cf.slot[v] = n
		n++
		return n - 1
	}
	for _, p := range fn.Params {
		add(p)
	}
	for _, fv := range fn.FreeVars {
		add(fv)
	}
	for _, l := range fn.Locals {
		add(l)
	}
	cf.blocks = make([]cblock, len(fn.Blocks))
	for bi, b := range fn.Blocks {
		cb := &cf.blocks[bi]
		cb.firstNonPhi = len(b.Instrs)
		cb.dst = make([]int32, len(b.Instrs))
		seenNonPhi := false
		for k, instr := range b.Instrs {
			if _, isPhi := instr.(*ssa.Phi); !isPhi && !seenNonPhi {
				cb.firstNonPhi = k
				seenNonPhi = true
			}
			cb.dst[k] = -1
			if v, ok := instr.(ssa.Value); ok {
				if sl, have := cf.slot[v]; have {
					cb.dst[k] = sl // local Alloc: slot already holds its address
				} else {
					cb.dst[k] = add(v)
				}
			}
		}
	}
	// one scratch slot for instructions without a value (dst -1 is never written)
	cf.nslots = int(n)
	cfuncCache.Store(fn, cf)
	return cf
}

func doRecover(caller *frame) value {
	if caller != nil && !caller.panicking &&
		caller.caller != nil && caller.caller.panicking {
		caller.caller.panicking = false
		p := caller.caller.panic
		caller.caller.panic = nil
		switch p := p.(type) {
		case targetPanic:
			if p.rt {
				return iface{caller.i.runtimeErrorString, p.v}
			}
			return p.v
		default:
			panic(engineError{fmt.Sprintf("unexpected panic type %T in target call to recover()", p)})
		}
	}
	return iface{}
}

// newInterpreter creates the per-path interpreter state.
func newInterpreter(prog *ssa.Program, cfg *Config, ex *pathExec) *interpreter {
	i := &interpreter{
		prog:       prog,
		globals:    make(map[*ssa.Global]*value),
		sizes:      &types.StdSizes{WordSize: 8, MaxAlign: 8},
		ex:         ex,
		cfg:        cfg,
		stepBudget: cfg.StepBudget,
		mutexes:    make(map[*value]*mutexState),
	}
	if cfg.CollectFuncs {
		i.funcsRun = make(map[*ssa.Function]int64)
	}
	runtimePkg := prog.ImportedPackage("runtime")
	if runtimePkg == nil {
		panic(engineError{"ssa.Program doesn't include runtime package"})
	}
	i.runtimeErrorString = runtimePkg.Type("errorString").Object().Type()
	return i
}
