package interp

// secp256k1 operations of tokenized/pkg/bitcoin as uninterpreted functions
// over byte blobs (see intrinsics_big.go for the big.Int representation).
// Axioms added per path:
//   Verify(Sign(k, h), h, PublicKey(k))                       (correctness)
// Unforgeability is NOT built in; harnesses state it as an assumption.

import (
	"fmt"
	"go/types"
)

// blobTerm packs a big.Int blob (≤ n bytes) into an n-byte big-endian term.
func (i *interpreter) blobTerm(abs []value, n int) *term {
	tb := i.ex.tb
	if len(abs) > n {
		panic(engineError{fmt.Sprintf("big.Int blob of %d bytes exceeds %d", len(abs), n)})
	}
	var t *term
	add := func(b *term) {
		if t == nil {
			t = b
		} else {
			t = tb.concat2(t, b)
		}
	}
	for j := 0; j < n-len(abs); j++ {
		add(tb.constBV(8, 0))
	}
	for _, w := range abs {
		bt, _ := i.toTerm(i.convV(u8T, uintT, w))
		add(bt)
	}
	return t
}

func (i *interpreter) bytesTermV(bs []value) *term {
	tb := i.ex.tb
	var t *term
	for _, b := range bs {
		bt, _ := i.toTerm(b)
		if t == nil {
			t = bt
		} else {
			t = tb.concat2(t, bt)
		}
	}
	return t
}

// termToBlob turns an n-byte term into a big.Int structure holding n bytes
// (leading zero bytes are NOT stripped: values are treated as opaque, full-width).
func (i *interpreter) termToBlob(t *term, n int) structure {
	tb := i.ex.tb
	abs := make([]value, n)
	for j := 0; j < n; j++ {
		hi := t.w - 1 - 8*j
		b := tb.extract(t, hi, hi-7)
		abs[j] = i.convV(uintT, u8T, norm(b, types.Uint8))
	}
	return structure{false, abs}
}

func bigOf(v value) []value {
	st := v.(structure)
	abs, _ := st[1].([]value)
	return abs
}

func init() {
	const bp = "github.com/tokenized/pkg/bitcoin"
	// (bitcoin.Signature).Verify(hash Hash32, pubkey PublicKey) bool
	reg("("+bp+".Signature).Verify", func(fr *frame, args []value) value {
		i := fr.i
		sig := args[0].(structure)
		hash := args[1].(array)
		pk := args[2].(structure)
		in := []*term{
			i.blobTerm(bigOf(sig[0]), 33), i.blobTerm(bigOf(sig[1]), 33),
			i.bytesTermV([]value(hash)), i.blobTerm(bigOf(pk[0]), 32),
		}
		t := i.ex.tb.uf("ecdsa_verify", 0, in)
		return norm(t, types.Bool)
	})
	// (bitcoin.Key).PublicKey() PublicKey
	reg("("+bp+".Key).PublicKey", func(fr *frame, args []value) value {
		i := fr.i
		k := args[0].(structure)
		kin := i.blobTerm(bigOf(k[0]), 32)
		x := i.ex.tb.uf("secp256k1_pub_x", 256, []*term{kin})
		// a derived public key is a curve point; its x coordinate is taken to have no
		// leading zero byte (representation assumption of the blob model)
		i.ex.addPC(i.ex.tb.uf("secp256k1_on_curve", 0, []*term{x}))
		i.ex.addPC(i.ex.tb.not(i.ex.tb.eq(i.ex.tb.extract(x, 255, 248), i.ex.tb.constBV(8, 0))))
		i.ex.noteAssumption("derived secp256k1 coordinates / scalars have no leading zero byte (blob model)")
		par := i.ex.tb.uf("secp256k1_pub_parity", 8, []*term{kin})
		yb := i.binopVu8or(norm(i.ex.tb.bin(opAnd, par, i.ex.tb.constBV(8, 1)), types.Uint8), uint8(2))
		return structure{i.termToBlob(x, 32), structure{false, []value{i.convV(uintT, u8T, yb)}}}
	})
	// (bitcoin.Key).Sign(hash) (Signature, error)
	reg("("+bp+".Key).Sign", func(fr *frame, args []value) value {
		i := fr.i
		tb := i.ex.tb
		k := args[0].(structure)
		hash := args[1].(array)
		kin := i.blobTerm(bigOf(k[0]), 32)
		hin := i.bytesTermV([]value(hash))
		r := tb.uf("ecdsa_sign_r", 256, []*term{kin, hin})
		s := tb.uf("ecdsa_sign_s", 256, []*term{kin, hin})
		// signatures are non-zero with the top bit clear (canonical, no DER padding games)
		i.ex.addPC(tb.not(tb.eq(tb.extract(r, 255, 248), tb.constBV(8, 0))))
		i.ex.addPC(tb.not(tb.eq(tb.extract(s, 255, 248), tb.constBV(8, 0))))
		i.ex.addPC(tb.eq(tb.extract(r, 255, 255), tb.constBV(1, 0)))
		i.ex.addPC(tb.eq(tb.extract(s, 255, 255), tb.constBV(1, 0)))
		sig := structure{i.termToBlob(r, 32), i.termToBlob(s, 32)}
		// correctness axiom: the signature verifies under the matching public key
		x := tb.uf("secp256k1_pub_x", 256, []*term{kin})
		ver := tb.uf("ecdsa_verify", 0, []*term{
			i.blobTerm(bigOf(sig[0]), 33), i.blobTerm(bigOf(sig[1]), 33), hin, x,
		})
		i.ex.addPC(ver)
		return tuple{sig, iface{}}
	})
	// bitcoin.GenerateSeedValue() (Hash32, error): fresh symbolic 32 bytes; two seeds are distinct
	// (it mixes 32 random bytes with the clock: an assumption about the random source, recorded)
	reg(bp+".GenerateSeedValue", func(fr *frame, args []value) value {
		ex := fr.i.ex
		h := make(array, 32)
		draw := make([]*term, 32)
		for j := range h {
			t, _ := ex.newInput(fmt.Sprintf("seed[%d]", j), 8)
			draw[j] = t
			h[j] = norm(t, types.Uint8)
		}
		for _, prev := range ex.seedDraws {
			differ := ex.tb.constBool(false)
			for j := range draw {
				differ = ex.tb.or(differ, ex.tb.not(ex.tb.eq(draw[j], prev[j])))
			}
			ex.addPC(differ)
			ex.noteAssumption("two generated seed values are distinct")
		}
		ex.seedDraws = append(ex.seedDraws, draw)
		return tuple{h, iface{}}
	})
	// bitcoin.NextPublicKey(base PublicKey, hash Hash32) (PublicKey, error)
	reg(bp+".NextPublicKey", func(fr *frame, args []value) value {
		i := fr.i
		tb := i.ex.tb
		pk := args[0].(structure)
		hash := args[1].(array)
		in := []*term{i.blobTerm(bigOf(pk[0]), 32), i.bytesTermV([]value(hash))}
		x := tb.uf("wp42_next_pub_x", 256, in)
		i.ex.addPC(tb.uf("secp256k1_on_curve", 0, []*term{x}))
		i.ex.addPC(tb.not(tb.eq(tb.extract(x, 255, 248), tb.constBV(8, 0))))
		// derived keys are taken to be in range (the retry loop for out-of-range keys is not explored)
		i.ex.noteAssumption("WP42 key derivation never yields an out-of-range key")
		return tuple{structure{i.termToBlob(x, 32), structure{false, []value{uint(2)}}}, iface{}}
	})
	// bitcoin.NextKey(base Key, hash Hash32) (Key, error)
	reg(bp+".NextKey", func(fr *frame, args []value) value {
		i := fr.i
		tb := i.ex.tb
		k := args[0].(structure)
		hash := args[1].(array)
		in := []*term{i.blobTerm(bigOf(k[0]), 32), i.bytesTermV([]value(hash))}
		v := tb.uf("wp42_next_key", 256, in)
		i.ex.addPC(tb.not(tb.eq(tb.extract(v, 255, 248), tb.constBV(8, 0))))
		return tuple{structure{i.termToBlob(v, 32), k[1]}, iface{}}
	})
}

func (i *interpreter) binopVu8or(a, b value) value {
	ta, _ := i.toTerm(a)
	tbb, _ := i.toTerm(b)
	return norm(i.ex.tb.bin(opOr, ta, tbb), types.Uint8)
}
