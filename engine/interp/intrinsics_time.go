package interp

// Virtual clock.  time.Time is represented as its real struct shape
// {wall uint64, ext int64, loc *Location} with a private convention:
// wall==0 is the zero Time, wall==1 marks a set time whose ext field holds
// nanoseconds since the Unix epoch (concrete or symbolic).  Every function of
// package time that the code under test uses is an intrinsic; the rest of
// the package is opaque (engine error), so the convention cannot leak.

import (
	"fmt"
	"go/token"
	"go/types"
	"math"
	"time"
)

func mkTime(ns value) value {
	return structure{uint64(1), ns, (*value)(nil)}
}

func timeNs(t value) (value, bool) {
	s := t.(structure)
	if w, ok := s[0].(uint64); ok && w == 0 {
		// zero time: year 1; far in the past
		return int64(-6213559680_000_000_000), false // clamp: "long ago"
	}
	return s[1], true
}

var i64T = types.Typ[types.Int64]

func registerTime() {
	reg("time.Now", func(fr *frame, args []value) value { return mkTime(fr.i.ex.clock) })
	reg("time.Since", func(fr *frame, args []value) value {
		ns, _ := timeNs(args[0])
		return fr.i.binopV(token.SUB, i64T, fr.i.ex.clock, ns)
	})
	reg("time.Until", func(fr *frame, args []value) value {
		ns, _ := timeNs(args[0])
		return fr.i.binopV(token.SUB, i64T, ns, fr.i.ex.clock)
	})
	reg("(time.Time).Sub", func(fr *frame, args []value) value {
		a, _ := timeNs(args[0])
		b, _ := timeNs(args[1])
		return fr.i.binopV(token.SUB, i64T, a, b)
	})
	reg("(time.Time).Add", func(fr *frame, args []value) value {
		a, _ := timeNs(args[0])
		return mkTime(fr.i.binopV(token.ADD, i64T, a, args[1]))
	})
	reg("(time.Time).Before", func(fr *frame, args []value) value {
		a, _ := timeNs(args[0])
		b, _ := timeNs(args[1])
		return fr.i.binopV(token.LSS, i64T, a, b)
	})
	reg("(time.Time).After", func(fr *frame, args []value) value {
		a, _ := timeNs(args[0])
		b, _ := timeNs(args[1])
		return fr.i.binopV(token.GTR, i64T, a, b)
	})
	reg("(time.Time).Equal", func(fr *frame, args []value) value {
		a, _ := timeNs(args[0])
		b, _ := timeNs(args[1])
		return fr.i.binopV(token.EQL, i64T, a, b)
	})
	reg("(time.Time).Compare", func(fr *frame, args []value) value {
		a, _ := timeNs(args[0])
		b, _ := timeNs(args[1])
		if fr.i.decideV(fr.i.binopV(token.LSS, i64T, a, b)) {
			return -1
		}
		if fr.i.decideV(fr.i.binopV(token.GTR, i64T, a, b)) {
			return 1
		}
		return 0
	})
	reg("(time.Time).IsZero", func(fr *frame, args []value) value {
		return args[0].(structure)[0].(uint64) == 0
	})
	reg("(time.Time).UnixNano", func(fr *frame, args []value) value {
		a, _ := timeNs(args[0])
		return a
	})
	reg("(time.Time).UnixMilli", func(fr *frame, args []value) value {
		a, _ := timeNs(args[0])
		return fr.i.floorDiv(a, 1_000_000)
	})
	reg("(time.Time).UnixMicro", func(fr *frame, args []value) value {
		a, _ := timeNs(args[0])
		return fr.i.floorDiv(a, 1_000)
	})
	reg("(time.Time).Unix", func(fr *frame, args []value) value {
		a, _ := timeNs(args[0])
		return fr.i.floorDiv(a, 1_000_000_000)
	})
	reg("(time.Time).Nanosecond", func(fr *frame, args []value) value {
		a, _ := timeNs(args[0])
		q := fr.i.floorDiv(a, 1_000_000_000)
		r := fr.i.binopV(token.SUB, i64T, a, fr.i.binopV(token.MUL, i64T, q, int64(1_000_000_000)))
		return fr.i.convV(types.Typ[types.Int], i64T, r)
	})
	for _, same := range []string{"UTC", "Local", "Round", "Truncate"} {
		name := "(time.Time)." + same
		takesArg := same == "Round" || same == "Truncate"
		reg(name, func(fr *frame, args []value) value {
			if takesArg {
				if d, ok := args[1].(int64); !ok || d > 1 {
					panic(engineError{name + " with a non-trivial duration is not modelled"})
				}
			}
			return args[0]
		})
	}
	reg("(time.Time).In", func(fr *frame, args []value) value { return args[0] })
	reg("(time.Time).String", func(fr *frame, args []value) value { return fmtTime(args[0]) })
	reg("(time.Time).Format", func(fr *frame, args []value) value { return fmtTime(args[0]) })
	reg("(time.Time).GoString", func(fr *frame, args []value) value { return fmtTime(args[0]) })
	reg("time.Unix", func(fr *frame, args []value) value {
		sec, nsec := args[0], args[1]
		ns := fr.i.binopV(token.ADD, i64T, fr.i.binopV(token.MUL, i64T, sec, int64(1_000_000_000)), nsec)
		return mkTime(ns)
	})
	reg("time.UnixMilli", func(fr *frame, args []value) value {
		return mkTime(fr.i.binopV(token.MUL, i64T, args[0], int64(1_000_000)))
	})
	reg("time.Sleep", func(fr *frame, args []value) value {
		ex := fr.i.ex
		d := args[0]
		if dc, ok := d.(int64); ok && dc < 0 {
			d = int64(0)
		}
		if ex.sched != nil {
			// a coroutine sleeps on a private timer: the others run meanwhile
			fr.i.chanSeq++
			t := &channel{cap: 1, id: fr.i.chanSeq, timer: true, fireAt: fr.i.binopV(token.ADD, i64T, ex.clock, d)}
			fr.i.chanRecv(fr, t)
			return nil
		}
		ex.clock = fr.i.binopV(token.ADD, i64T, ex.clock, d)
		if ex.hooks.onSleep != nil {
			call(fr.i, fr, 0, ex.hooks.onSleep, []value{args[0]})
		} else {
			ex.sleeps++
			if ex.sleeps > 10000 {
				panic(pathEnd{reason: "cut: more than 10000 sleeps without an OnSleep hook"})
			}
		}
		return nil
	})
	reg("time.After", func(fr *frame, args []value) value {
		i := fr.i
		i.chanSeq++
		at := i.binopV(token.ADD, i64T, i.ex.clock, args[0])
		return &channel{cap: 1, id: i.chanSeq, timer: true, fireAt: at}
	})
	reg("time.Tick", func(fr *frame, args []value) value {
		panic(engineError{"time.Tick is not modelled"})
	})

	// Duration
	durF := func(div float64) intrinsic {
		return func(fr *frame, args []value) value {
			switch d := args[0].(type) {
			case int64:
				return float64(d) / div
			case sv:
				return symFloat{num: d, den: div}
			}
			panic(engineError{"Duration float conversion of unexpected value"})
		}
	}
	reg("(time.Duration).Seconds", durF(1e9))
	reg("(time.Duration).Minutes", durF(60e9))
	reg("(time.Duration).Hours", durF(3600e9))
	reg("(time.Duration).Nanoseconds", func(fr *frame, args []value) value { return args[0] })
	reg("(time.Duration).Microseconds", func(fr *frame, args []value) value {
		return fr.i.binopV(token.QUO, i64T, args[0], int64(1000))
	})
	reg("(time.Duration).Milliseconds", func(fr *frame, args []value) value {
		return fr.i.binopV(token.QUO, i64T, args[0], int64(1000000))
	})
	reg("(time.Duration).String", func(fr *frame, args []value) value {
		if d, ok := args[0].(int64); ok {
			return time.Duration(d).String()
		}
		return "<symbolic duration>"
	})
}

func fmtTime(t value) string {
	ns, set := timeNs(t)
	if !set {
		return "0001-01-01 00:00:00 +0000 UTC"
	}
	if c, ok := ns.(int64); ok {
		return time.Unix(0, c).UTC().String()
	}
	return "<symbolic time>"
}

// floorDiv divides a (possibly symbolic) non-negative-or-negative int64 by a
// positive constant with floor semantics (as time.Time.Unix does).
func (i *interpreter) floorDiv(a value, c int64) value {
	if ac, ok := a.(int64); ok {
		q := ac / c
		if ac%c < 0 {
			q--
		}
		return q
	}
	// symbolic: truncated quotient, corrected when the remainder is negative
	q := i.binopV(token.QUO, i64T, a, c)
	r := i.binopV(token.REM, i64T, a, c)
	neg := i.binopV(token.LSS, i64T, r, int64(0))
	return i.iteV(neg, i.binopV(token.SUB, i64T, q, int64(1)), q, types.Int64)
}

// fireTimer advances the virtual clock to the timer's instant and delivers it.
func (ex *pathExec) fireTimer(ch *channel) {
	i := ex.interp
	late := i.binopV(token.LSS, i64T, ex.clock, ch.fireAt)
	ex.clock = i.iteV(late, ch.fireAt, ex.clock, types.Int64)
	ch.fired = true
	ch.buf = append(ch.buf, mkTime(ex.clock))
}

// timerDue reports whether a pending timer has already expired.
func (ex *pathExec) timerDue(ch *channel) bool {
	i := ex.interp
	return i.decideV(i.binopV(token.LEQ, i64T, ch.fireAt, ex.clock))
}

// symFloatCmp compares a symbolic float against a constant.
func (i *interpreter) symFloatCmp(op token.Token, x, y value) value {
	sf, ok := x.(symFloat)
	if !ok {
		// constant on the left: mirror
		sf = y.(symFloat)
		switch op {
		case token.LSS:
			op = token.GTR
		case token.GTR:
			op = token.LSS
		case token.LEQ:
			op = token.GEQ
		case token.GEQ:
			op = token.LEQ
		}
		y = x
	}
	c, ok := y.(float64)
	if !ok {
		panic(engineError{fmt.Sprintf("comparison of symbolic float with %T", y)})
	}
	bound := c * sf.den
	if math.IsNaN(bound) || math.Abs(bound) > 9e18 {
		panic(engineError{"symbolic float comparison bound out of range"})
	}
	fl, ce := math.Floor(bound), math.Ceil(bound)
	num := value(sf.num)
	t := types.Typ[sf.num.k]
	mk := func(f float64) value { return mkConcrete(sf.num.k, uint64(int64(f))) }
	switch op {
	case token.GTR: // num/den > c  <=>  num > floor(c*den)
		return i.binopV(token.GTR, t, num, mk(fl))
	case token.GEQ:
		return i.binopV(token.GEQ, t, num, mk(ce))
	case token.LSS:
		return i.binopV(token.LSS, t, num, mk(ce))
	case token.LEQ:
		return i.binopV(token.LEQ, t, num, mk(fl))
	case token.EQL:
		if fl != ce {
			return false
		}
		return i.binopV(token.EQL, t, num, mk(fl))
	case token.NEQ:
		if fl != ce {
			return true
		}
		return i.binopV(token.NEQ, t, num, mk(fl))
	}
	panic(engineError{fmt.Sprintf("symbolic float op %s", op)})
}
