package interp

// Path exploration by decision-trace re-execution.

import (
	"fmt"
	"go/types"
	"os"
	"runtime/debug"
	"sort"
	"strings"
	"sync"
	"sync/atomic"
	"time"

	"golang.org/x/tools/go/ssa"
)

// Config controls one exploration.
type Config struct {
	Workers          int
	SolverTimeoutMs  int
	StepBudget       int64 // interpreted instructions per path
	MaxPaths         int
	MaxSymLen        int // largest symbolic length enumerated by case split
	MaxConcreteAlloc int
	CollectFuncs     bool
	Verbose          bool
	CrossCheck       bool // re-ask assertion queries to a second solver
	InitAllow        []string
	SkipFuncs        map[string]bool // functions replaced by an empty body (documented per use)
	Stubbed          []string
	Opaque           []string
	Seed             int64
	Deadline         time.Time
	TracePath        bool
	// ConcreteInputs, when non-nil, runs a single path with every symbolic
	// input replaced by the given value (translator validation).
	ConcreteInputs map[string]uint64
}

func (c *Config) initAllowed(path string) bool {
	for _, p := range c.InitAllow {
		if p == path || (strings.HasSuffix(p, "/...") && strings.HasPrefix(path, strings.TrimSuffix(p, "..."))) {
			return true
		}
	}
	return false
}

// zeroInitOK: globals of packages whose init is skipped but whose zero value
// is what the code expects (sync primitives, counters).
func (c *Config) zeroInitOK(g *ssa.Global) bool {
	if g.Pkg == nil {
		return true
	}
	if strings.HasPrefix(g.Name(), "init$guard") {
		return true
	}
	switch g.Pkg.Pkg.Path() {
	case "internal/cpu", "golang.org/x/sys/cpu", "internal/godebug", "internal/bytealg", "runtime":
		return true // feature flags: zero = generic code paths
	}
	return false
}

func (c *Config) stubbed(path string) bool {
	for _, p := range c.Stubbed {
		if p == path || (strings.HasSuffix(p, "/...") && strings.HasPrefix(path+"/", strings.TrimSuffix(p, "..."))) {
			return true
		}
	}
	return false
}

func (c *Config) opaque(path string) bool {
	for _, p := range c.Opaque {
		if p == path || (strings.HasSuffix(p, "/...") && strings.HasPrefix(path+"/", strings.TrimSuffix(p, "..."))) {
			return true
		}
	}
	return false
}

// DefaultConfig returns the standard engine configuration.
func DefaultConfig() *Config {
	return &Config{
		Workers:          8,
		SolverTimeoutMs:  10000,
		StepBudget:       50_000_000,
		MaxPaths:         2_000_000,
		MaxSymLen:        8,
		MaxConcreteAlloc: 1 << 22,
		CollectFuncs:     true,
		InitAllow: []string{
			"github.com/tokenized/spynode/...",
			"github.com/tokenized/pkg/bitcoin",
			"github.com/tokenized/pkg/wire",
			"github.com/tokenized/pkg/storage",
			"github.com/tokenized/pkg/merkle_proof",
			"github.com/tokenized/pkg/merchant_api",
			"github.com/tokenized/pkg/bsor",
			"github.com/tokenized/threads",
			"github.com/tokenized/envelope/...",
			"github.com/tokenized/specification/dist/golang/protocol",
			"github.com/pkg/errors",
			"io", "bytes", "encoding/binary", "context", "math", "strconv",
			"unicode/utf8", "sort", "strings", "sync", "sync/atomic", "encoding/hex",
			"container/list", "hash", "bufio", "io/ioutil", "math/bits", "slices",
			"internal/oserror",
			"crypto/sha256", "golang.org/x/crypto/ripemd160", "crypto", "math/rand",
		},
		SkipFuncs: map[string]bool{
			// registers btcd chain parameters (network names/address prefixes); needs btcd's chaincfg
			"github.com/tokenized/pkg/bitcoin.init#1": true,
		},
		Stubbed: []string{
			"github.com/tokenized/logger",
			"github.com/tokenized/metrics",
		},
		Opaque: []string{
			"reflect", "internal/reflectlite", "internal/abi", "math/big", "crypto/ecdsa", "crypto/elliptic",
			"github.com/btcsuite/...", "unsafe", "encoding/json", "regexp",
			"google.golang.org/protobuf/...", "github.com/golang/protobuf/...",
			"github.com/aws/...", "net/http", "os/signal", "os/exec",
			"runtime/debug", "runtime/pprof", "testing", "syscall", "os", "net", "time", "io/fs",
		},
	}
}

type traceKind uint8

const (
	tkDecide traceKind = iota // b = outcome, two = both sides feasible
	tkValue                   // v = picked value
	tkChoose                  // v = chosen alternative, n alternatives
	tkAssert                  // b = violated
)

type traceEntry struct {
	kind traceKind
	b    bool
	v    uint64
}

// Violation is one falsified assertion (or uncaught target panic) with the
// model that falsifies it.
type Violation struct {
	Harness string            `json:"harness"`
	Label   string            `json:"label"`
	Sig     string            `json:"sig"`
	Detail  string            `json:"detail"`
	Model   map[string]uint64 `json:"model"`
	Where   string            `json:"where"`
	Notes   []string          `json:"notes,omitempty"`
	// Alt: models of up to three other paths that violate the same label / signature (the native
	// replay tries them when the first one does not reproduce: schedule-dependent harnesses)
	Alt []map[string]uint64 `json:"-"`
}

func (v *Violation) Key() string { return v.Label + "|" + v.Sig }

// PathResult summarises one executed path.
type PathResult struct {
	Status     string // done, assume-false, cut, step-budget, blocked, panic
	Steps      int64
	InitSteps  int64
	Chooses    int
	Decisions  int
	Violations []*Violation
	Reached    []string
	Obls       int // assertion obligations met on this path
	OblsSolver int // of which needed the solver
	OblsUnsat  int // discharged by unsat
	Unknown    int // inconclusive obligations / branches
	Cuts       []string
	Assumptions []string
	Inputs     map[string]uint64 // sample model for the path (when requested)
	Observed   []string
	siblings   [][]traceEntry
	funcs      map[*ssa.Function]int64
	allocs     []AllocRecord
}

type AllocRecord struct {
	Where string
	Bytes string
}

// pathExec is the symbolic context of one path.
type pathExec struct {
	tb       *termTable
	solver   *solver
	cfg      *Config
	prefix   []traceEntry
	pos      int
	trace    []traceEntry
	pc       []*term
	pcSet    map[int]bool
	res      *PathResult
	sig      string
	harness  string
	names    map[string]int
	chosen   map[string]uint64 // Choose results by name (for replay)
	inputs   []inputDecl
	clock    value // int64 ns virtual clock
	interp   *interpreter
	hooks    harnessHooks
	notes    []string
	unbuf    map[*channel]bool
	allocObl *allocObligation
	shaApps  []shaApp
	shaConcrete []concreteCompress
	shaConcreteOverflow bool
	inBlocked int
	randDraws [][]*term // draws of the random source so far (distinctness assumption)
	seedDraws [][]*term // seeds generated so far (distinctness assumption)
	// innermost function of the panic most recently caught by verifrt.Catch
	lastPanicSite string
	// cooperative goroutines (verifrt.Goroutines)
	sched         *sched
	pendingTimers []*channel
	sleeps    int
	dialConn  value
	blockedRetries int
	dbg       []string
	prefer    *term // witness preference for the next assertion (model selection only)
	fmtSymbolic bool
}

type inputDecl struct {
	name string
	w    int
}

type harnessHooks struct {
	onBlocked value // func() bool
	onSleep   value // func(d int64)
}

type allocObligation struct {
	base    int64
	perByte int64
	inputLen int64
	label   string
}

func (ex *pathExec) addPC(t *term) {
	if t.isConst() {
		if t.c == 0 {
			panic(pathEnd{reason: "assume-false"})
		}
		return
	}
	if ex.pcSet[t.id] {
		return
	}
	ex.pcSet[t.id] = true
	ex.pc = append(ex.pc, t)
	ex.solver.assert(t)
	// conjunctions: remember the conjuncts too (cheap syntactic cache)
	if t.op == opBAnd {
		for _, a := range t.args {
			if !a.isConst() {
				ex.pcSet[a.id] = true
			}
		}
	}
}

func (ex *pathExec) known(t *term) (val bool, ok bool) {
	if t.isConst() {
		return t.c != 0, true
	}
	if ex.pcSet[t.id] {
		return true, true
	}
	n := ex.tb.not(t)
	if ex.pcSet[n.id] {
		return false, true
	}
	return false, false
}

// decide chooses a side of the symbolic condition c, forking the other side
// onto the work list when both are feasible.
func (ex *pathExec) decide(c *term) bool {
	if v, ok := ex.known(c); ok {
		return v
	}
	if ex.cfg.ConcreteInputs != nil {
		panic(engineError{"symbolic decision in concrete mode: " + describe(c, 4)})
	}
	ex.res.Decisions++
	if debugTrace {
		ex.dbg = append(ex.dbg, "D:"+describe(c, 5)+"@"+ex.interp.whereShort())
	}
	var out bool
	if ex.pos < len(ex.prefix) {
		e := ex.prefix[ex.pos]
		if e.kind != tkDecide {
			panic(engineError{fmt.Sprintf("trace mismatch at %d: want decide, have kind %d (non-deterministic execution?)", ex.pos, e.kind)})
		}
		ex.pos++
		out = e.b
		ex.trace = append(ex.trace, e)
	} else {
		nc := ex.tb.not(c)
		rT, _, _ := ex.solver.check([]*term{c}, false, nil)
		var rF satResult
		if rT == resUnsat {
			rF = resSat // pc is satisfiable by construction
		} else {
			rF, _, _ = ex.solver.check([]*term{nc}, false, nil)
		}
		if rT == resUnknown {
			ex.res.Unknown++
			rT = resSat
		}
		if rF == resUnknown {
			ex.res.Unknown++
			rF = resSat
		}
		switch {
		case rT == resSat && rF == resSat:
			out = true
			sib := make([]traceEntry, len(ex.trace)+1)
			copy(sib, ex.trace)
			sib[len(ex.trace)] = traceEntry{kind: tkDecide, b: false}
			ex.res.siblings = append(ex.res.siblings, sib)
		case rT == resSat:
			out = true
		case rF == resSat:
			out = false
		default:
			// both unsat: the path condition itself is unsatisfiable
			panic(pathEnd{reason: "infeasible"})
		}
		ex.trace = append(ex.trace, traceEntry{kind: tkDecide, b: out})
		ex.pos = len(ex.trace)
	}
	if out {
		ex.addPC(c)
	} else {
		ex.addPC(ex.tb.not(c))
	}
	return out
}

// concretize case-splits on the value of t.
func (ex *pathExec) concretize(t *term, what string, maxVals int) uint64 {
	if t.isConst() {
		return t.c
	}
	if ex.cfg.ConcreteInputs != nil {
		panic(engineError{"symbolic concretisation in concrete mode"})
	}
	for n := 0; ; n++ {
		if n > maxVals {
			ex.res.Cuts = append(ex.res.Cuts, fmt.Sprintf("more than %d feasible values for %s", maxVals, what))
			panic(pathEnd{reason: "cut: too many values for " + what})
		}
		var v uint64
		if ex.pos < len(ex.prefix) {
			e := ex.prefix[ex.pos]
			if e.kind != tkValue {
				panic(engineError{fmt.Sprintf("trace mismatch at %d: want value, have kind %d", ex.pos, e.kind)})
			}
			ex.pos++
			v = e.v
			ex.trace = append(ex.trace, e)
		} else {
			r, _, vals := ex.solver.check(nil, true, []*term{t})
			if r != resSat {
				if r == resUnknown {
					ex.res.Unknown++
					panic(pathEnd{reason: "cut: solver unknown while concretising " + what})
				}
				panic(pathEnd{reason: "infeasible"})
			}
			v = vals[0]
			ex.trace = append(ex.trace, traceEntry{kind: tkValue, v: v})
			ex.pos = len(ex.trace)
		}
		var eq *term
		if t.w == 0 {
			eq = t
			if v == 0 {
				eq = ex.tb.not(t)
			}
		} else {
			eq = ex.tb.eq(t, ex.tb.constBV(t.w, v))
		}
		if ex.decide(eq) {
			return v
		}
	}
}

// chooseN makes an n-way nondeterministic choice (no solver needed).
func (ex *pathExec) chooseN(what string, n int) int {
	if n <= 1 {
		return 0
	}
	if ex.cfg.ConcreteInputs != nil {
		if v, ok := ex.cfg.ConcreteInputs["@"+what]; ok {
			return int(v) % n
		}
		return 0
	}
	ex.res.Chooses++
	if debugTrace {
		ex.dbg = append(ex.dbg, "C:"+what)
	}
	if ex.pos < len(ex.prefix) {
		e := ex.prefix[ex.pos]
		if e.kind != tkChoose {
			panic(engineError{fmt.Sprintf("trace mismatch at %d: want choose, have kind %d", ex.pos, e.kind)})
		}
		ex.pos++
		ex.trace = append(ex.trace, e)
		if debugTrace {
			ex.dbg[len(ex.dbg)-1] += fmt.Sprintf("=%d", e.v)
		}
		return int(e.v)
	}
	if debugTrace {
		ex.dbg[len(ex.dbg)-1] += "=0"
	}
	for k := 1; k < n; k++ {
		sib := make([]traceEntry, len(ex.trace)+1)
		copy(sib, ex.trace)
		sib[len(ex.trace)] = traceEntry{kind: tkChoose, v: uint64(k)}
		ex.res.siblings = append(ex.res.siblings, sib)
	}
	ex.trace = append(ex.trace, traceEntry{kind: tkChoose, v: 0})
	ex.pos = len(ex.trace)
	return 0
}

func (ex *pathExec) uniqueName(name string) string {
	n := ex.names[name]
	ex.names[name] = n + 1
	if n == 0 {
		return name
	}
	return fmt.Sprintf("%s#%d", name, n)
}

// newInput declares a symbolic input of width w (0 = bool).
func (ex *pathExec) newInput(name string, w int) (*term, string) {
	name = ex.uniqueName(name)
	ex.inputs = append(ex.inputs, inputDecl{name, w})
	if ex.cfg.ConcreteInputs != nil {
		v := ex.cfg.ConcreteInputs[name]
		if w == 0 {
			return ex.tb.constBool(v != 0), name
		}
		return ex.tb.constBV(w, v), name
	}
	return ex.tb.newVar(name, w), name
}

// model returns a model of the current path condition plus the recorded
// choices, or nil if the solver cannot produce one.
func (ex *pathExec) model(extra []*term) (map[string]uint64, satResult) {
	r, m, _ := ex.solver.check(extra, true, nil)
	if r != resSat {
		return nil, r
	}
	for k, v := range ex.chosen {
		m[k] = v
	}
	// inputs the solver never saw are unconstrained: 0
	for _, in := range ex.inputs {
		if _, ok := m[in.name]; !ok {
			m[in.name] = 0
		}
	}
	return m, r
}

// assert checks a labelled property.
func (ex *pathExec) assert(cond value, label string, where string) {
	ex.res.Obls++
	defer func() { ex.prefer = nil }()
	var c *term
	switch cv := cond.(type) {
	case bool:
		if cv {
			return
		}
		c = ex.tb.ff
	case sv:
		c = cv.t
	default:
		panic(engineError{fmt.Sprintf("Assert on %T", cond)})
	}
	if v, ok := ex.known(c); ok && v {
		return
	}
	violated := false
	var model map[string]uint64
	if ex.pos < len(ex.prefix) {
		e := ex.prefix[ex.pos]
		if e.kind != tkAssert {
			panic(engineError{fmt.Sprintf("trace mismatch at %d: want assert, have kind %d", ex.pos, e.kind)})
		}
		ex.pos++
		ex.trace = append(ex.trace, e)
		violated = e.b
		// already reported by the run that discovered it
		if violated {
			ex.addPC(c)
		} else if e.v == 1 && !c.isConst() {
			ex.pcSet[c.id] = true
		}
		return
	}
	ex.res.OblsSolver++
	nc := ex.tb.not(c)
	var r satResult
	prefer := ex.prefer
	ex.prefer = nil
	if c.isConst() {
		model, r = ex.model(nil)
	} else {
		r = resUnknown
		if prefer != nil && !prefer.isConst() {
			model, r = ex.model([]*term{nc, prefer})
		}
		if r != resSat {
			model, r = ex.model([]*term{nc})
		}
	}
	switch r {
	case resUnsat:
		ex.res.OblsUnsat++
		if ex.cfg.CrossCheck && !c.isConst() {
			if err := ex.solver.crossCheck([]*term{nc}, resUnsat); err != nil {
				panic(engineError{err.Error()})
			}
		}
	case resSat:
		violated = true
	default:
		ex.res.Unknown++
	}
	cached := uint64(0)
	if r == resUnsat && !c.isConst() {
		cached = 1
	}
	ex.trace = append(ex.trace, traceEntry{kind: tkAssert, b: violated, v: cached})
	ex.pos = len(ex.trace)
	if violated {
		if os.Getenv("GOSYM_DEBUG_PC") != "" {
			fmt.Fprintf(os.Stderr, "VIOLATION %s sig=%s model=%v\n", label, ex.sig, model)
			for _, t := range ex.pc {
				fmt.Fprintf(os.Stderr, "   pc: %s\n", describe(t, 12))
			}
		}
		ex.res.Violations = append(ex.res.Violations, &Violation{
			Harness: ex.harness, Label: label, Sig: ex.sig, Model: model, Where: where,
			Detail: "assertion can be false", Notes: append([]string(nil), ex.notes...),
		})
		// continue under the assumption that it held
		ex.addPC(c)
	} else if r == resUnsat && !c.isConst() {
		ex.pcSet[c.id] = true // implied; cache syntactically
	}
}

func (ex *pathExec) reach(label string) {
	for _, r := range ex.res.Reached {
		if r == label {
			return
		}
	}
	ex.res.Reached = append(ex.res.Reached, label)
}

// onBlocked gives the harness a chance to run other units when the current
// one would block.  Returns true if the operation should be retried.
func (ex *pathExec) onBlocked(fr *frame, what string, ch *channel) bool {
	if ex.sched != nil {
		t := ex.pendingTimers
		ex.pendingTimers = nil
		return ex.sched.blocked(what+" at "+fr.pos(), t)
	}
	if ex.hooks.onBlocked == nil || ex.inBlocked > 0 {
		return false // no hook, or already inside the hook (units run by the hook simply block)
	}
	ex.blockedRetries++
	if ex.blockedRetries > 100000 {
		panic(engineError{"livelock: OnBlocked hook keeps asking for retries without progress (" + what + ")"})
	}
	ex.inBlocked++
	defer func() { ex.inBlocked-- }()
	r := call(ex.interp, fr, 0, ex.hooks.onBlocked, nil)
	b, _ := r.(bool)
	return b
}

func (ex *pathExec) unbufferedOK(ch *channel) bool {
	return ex.unbuf[ch]
}

// onAlloc is the allocation obligation hook (C20): at a make([]T, n) executed
// in a repository function, n*sizeof(T) must not exceed base + perByte*L.
// When it can, a witness that exceeds the limit by a wide margin is preferred
// (so that the native replay observes it unmistakably).
func (ex *pathExec) onAlloc(fr *frame, n value, elemSize int64) {
	ob := ex.allocObl
	if ob == nil {
		return
	}
	judged := func(f *frame) bool {
		if f.fn.Pkg == nil {
			return false
		}
		p := f.fn.Pkg.Pkg.Path()
		return strings.HasPrefix(p, "github.com/tokenized/spynode") || strings.HasPrefix(p, "github.com/tokenized/pkg/")
	}
	// the allocation is charged to the nearest frame of the repository (or of its tokenized/pkg
	// dependency); allocations made on its behalf inside other packages (bytes.Buffer.Grow,
	// io.ReadAll, ...) are judged when their size depends on the input
	owner := fr
	for owner != nil && !judged(owner) {
		owner = owner.caller
	}
	if owner == nil {
		return
	}
	if _, symbolic := n.(sv); owner != fr && !symbolic {
		return
	}
	if strings.Contains(owner.fn.Name(), "VerifHarness") || strings.HasPrefix(owner.fn.Name(), "vk") || strings.HasPrefix(owner.fn.Name(), "c20") || strings.HasPrefix(owner.fn.Name(), "c15") {
		return
	}
	limit := ob.base + ob.perByte*ob.inputLen
	where := fr.pos()
	site := "alloc@" + owner.fn.RelString(owner.fn.Pkg.Pkg)
	if !strings.HasPrefix(owner.fn.Pkg.Pkg.Path(), "github.com/tokenized/spynode") {
		site = "alloc@" + owner.fn.String() // dependency: fully qualified
	}
	if owner != fr {
		site += " via " + fr.fn.String()
	}
	s, isS := n.(sv)
	if !isS {
		bytes := asInt64(n) * elemSize
		ex.res.allocs = append(ex.res.allocs, AllocRecord{site, "concrete"})
		ex.sig = site
		ex.assert(bytes <= limit, ob.label, where)
		return
	}
	tb := ex.tb
	w := kindWidth(s.k)
	le := func(maxBytes int64) *term {
		maxN := uint64(maxBytes / elemSize)
		if kindSigned(s.k) {
			if w < 64 && maxN > mask(w-1) {
				return tb.tt
			}
			return tb.cmp(opSLe, s.t, tb.constBV(w, maxN&mask(w)))
		}
		if w < 64 && maxN > mask(w) {
			return tb.tt
		}
		return tb.cmp(opULe, s.t, tb.constBV(w, maxN&mask(w)))
	}
	ex.res.allocs = append(ex.res.allocs, AllocRecord{site, "symbolic"})
	ex.sig = site
	// prefer a witness that exceeds the limit by a wide margin (64 MiB) without being
	// so large that the native run dies in makeslice instead of allocating
	ex.prefer = tb.and(tb.not(le(limit+(64<<20))), le(256<<20))
	ex.assert(norm(le(limit), types.Bool), ob.label, where)
}

func shortPos(s string) string {
	// "fn /path/file.go:12:3" -> "file.go:12"
	if j := strings.LastIndex(s, "/"); j >= 0 {
		s = s[j+1:]
	}
	parts := strings.Split(s, ":")
	if len(parts) >= 2 {
		return parts[0] + ":" + parts[1]
	}
	return s
}

// ---------------------------------------------------------------------------
// Explorer

type Explorer struct {
	sampled atomic.Int32
	Prog    *ssa.Program
	Fn      *ssa.Function
	Cfg     *Config
	Harness string
}

// Report aggregates an exploration.
type Report struct {
	Harness        string
	Paths          int
	PathsByStatus  map[string]int
	Decisions      int
	Chooses        int
	Steps          int64
	Obligations    int
	OblsSolver     int
	OblsUnsat      int
	Unknown        int
	Violations     []*Violation // distinct by key
	ViolationCount int
	Reached        map[string]int
	Cuts           map[string]int
	Assumptions    map[string]int
	Solver         SolverStats
	Funcs          map[string]int64
	Samples        []PathSample
	EngineErrors   []string
	Incomplete     string
	Wall           time.Duration
	Allocs         map[string]int
	Observed       [][]string
	BlockedNotes   map[string]int
}

// PathSample is one explored path written out: a model of its path condition
// and what the harness observed along it.
type PathSample struct {
	Model    map[string]uint64
	Status   string
	Observed []string
}

var thoroughTier bool
var debugTrace = os.Getenv("GOSYM_DEBUG_TRACE") != ""

// SetTier selects what verifrt.Thorough() returns.
func SetTier(thorough bool) { thoroughTier = thorough }

type workItem struct {
	prefix []traceEntry
}

func (e *Explorer) Run() *Report {
	start := time.Now()
	rep := &Report{
		Harness: e.Harness, PathsByStatus: map[string]int{}, Reached: map[string]int{},
		Cuts: map[string]int{}, Assumptions: map[string]int{}, Funcs: map[string]int64{}, Allocs: map[string]int{},
		BlockedNotes: map[string]int{},
	}
	rep.Solver.ByBackend = map[string]int{}
	var mu sync.Mutex
	cond := sync.NewCond(&mu)
	work := []workItem{{}}
	active := 0
	stop := false
	seen := map[string]bool{}
	firstOf := map[string]*Violation{}
	nw := e.Cfg.Workers
	if nw < 1 {
		nw = 1
	}
	if e.Cfg.ConcreteInputs != nil {
		nw = 1
	}
	if os.Getenv("GOSYM_PROGRESS") != "" {
		go func() {
			for {
				time.Sleep(5 * time.Second)
				mu.Lock()
				fmt.Fprintf(os.Stderr, "  progress %s: paths=%d work=%d active=%d status=%v\n", e.Harness, rep.Paths, len(work), active, rep.PathsByStatus)
				done := stop || (len(work) == 0 && active == 0)
				mu.Unlock()
				if done {
					return
				}
			}
		}()
	}
	var wg sync.WaitGroup
	for w := 0; w < nw; w++ {
		wg.Add(1)
		go func() {
			defer wg.Done()
			sv := newSolver(e.Cfg.SolverTimeoutMs)
			defer func() {
				mu.Lock()
				rep.Solver.add(&sv.stats)
				mu.Unlock()
				sv.close()
			}()
			for {
				mu.Lock()
				for len(work) == 0 && active > 0 && !stop {
					cond.Wait()
				}
				if stop || (len(work) == 0 && active == 0) {
					mu.Unlock()
					cond.Broadcast()
					return
				}
				it := work[len(work)-1]
				work = work[:len(work)-1]
				active++
				mu.Unlock()

				res, err := e.runPath(sv, it.prefix)

				mu.Lock()
				active--
				if err != "" {
					rep.EngineErrors = append(rep.EngineErrors, err)
					stop = true
				}
				if res != nil {
					rep.Paths++
					rep.PathsByStatus[res.Status]++
					rep.Decisions += res.Decisions
					rep.Chooses += res.Chooses
					rep.Steps += res.Steps
					rep.Obligations += res.Obls
					rep.OblsSolver += res.OblsSolver
					rep.OblsUnsat += res.OblsUnsat
					rep.Unknown += res.Unknown
					for _, r := range res.Reached {
						rep.Reached[r]++
					}
					for _, c := range res.Cuts {
						rep.Cuts[c]++
					}
					for _, c := range res.Assumptions {
						rep.Assumptions[c]++
					}
					for _, a := range res.allocs {
						rep.Allocs[a.Where+" "+a.Bytes]++
					}
					for _, v := range res.Violations {
						rep.ViolationCount++
						if first, ok := firstOf[v.Key()]; ok && len(first.Alt) < 3 && v.Model != nil {
							first.Alt = append(first.Alt, v.Model)
						}
						if !seen[v.Key()] {
							seen[v.Key()] = true
							firstOf[v.Key()] = v
							rep.Violations = append(rep.Violations, v)
						}
					}
					for f, n := range res.funcs {
						rep.Funcs[f.String()] += n
					}
					if res.Inputs != nil && len(rep.Samples) < 8 && len(res.Violations) == 0 {
						rep.Samples = append(rep.Samples, PathSample{res.Inputs, res.Status, res.Observed})
					}
					for _, s := range res.siblings {
						work = append(work, workItem{s})
					}
					if rep.Paths >= e.Cfg.MaxPaths {
						rep.Incomplete = fmt.Sprintf("path limit %d reached", e.Cfg.MaxPaths)
						stop = true
					}
					if !e.Cfg.Deadline.IsZero() && time.Now().After(e.Cfg.Deadline) {
						rep.Incomplete = "deadline reached"
						stop = true
					}
				}
				mu.Unlock()
				cond.Broadcast()
			}
		}()
	}
	wg.Wait()
	if len(work) > 0 && rep.Incomplete == "" && len(rep.EngineErrors) == 0 {
		rep.Incomplete = fmt.Sprintf("%d prefixes left unexplored", len(work))
	}
	sort.Slice(rep.Violations, func(a, b int) bool { return rep.Violations[a].Key() < rep.Violations[b].Key() })
	rep.Wall = time.Since(start)
	return rep
}

// runPath executes the harness once along prefix.
func (e *Explorer) runPath(sv *solver, prefix []traceEntry) (res *PathResult, engineErr string) {
	tb := newTermTable()
	sv.beginPath(tb)
	sv.crossChk = e.Cfg.CrossCheck
	ex := &pathExec{
		tb: tb, solver: sv, cfg: e.Cfg, prefix: prefix, pcSet: map[int]bool{},
		res: &PathResult{}, harness: e.Harness, names: map[string]int{}, chosen: map[string]uint64{},
		unbuf: map[*channel]bool{},
	}
	ex.clock = int64(1_600_000_000_000_000_000)
	i := newInterpreter(e.Prog, e.Cfg, ex)
	i.trace = e.Cfg.TracePath
	ex.interp = i
	res = ex.res
	defer func() {
		res.Steps = i.steps
		res.funcs = i.funcsRun
		r := recover()
		if ex.sched != nil {
			ex.sched.killAll()
		}
		if r == nil {
			return
		}
		switch r := r.(type) {
		case pathEnd:
			switch {
			case strings.HasPrefix(r.reason, "cut"):
				res.Status = "cut"
				res.Cuts = append(res.Cuts, r.reason)
			default:
				res.Status = r.reason
			}
		case blockedPanic:
			res.Status = "blocked"
			res.Cuts = append(res.Cuts, "harness blocked: "+r.what)
			engineErr = "harness-level block (unit not wrapped in RunUntilBlocked): " + r.what
		case targetPanic:
			// uncaught panic of the code under test
			res.Status = "panic"
			m, sr := ex.model(nil)
			if sr == resSat {
				res.Violations = append(res.Violations, &Violation{
					Harness: ex.harness, Label: "no-panic", Sig: ex.sig, Model: m,
					Detail: "uncaught panic: " + toString(r.v), Where: r.where,
					Notes: append([]string(nil), ex.notes...),
				})
			} else {
				res.Unknown++
			}
		case engineError:
			engineErr = fmt.Sprintf("%s: %s", e.Harness, r.msg)
			res.Status = "engine-error"
		case engineBug:
			engineErr = fmt.Sprintf("%s: interpreter fault: %v\n%s", e.Harness, r.r, r.where)
			res.Status = "engine-error"
		default:
			engineErr = fmt.Sprintf("%s: interpreter fault: %v\n%s", e.Harness, r, debug.Stack())
			res.Status = "engine-error"
		}
	}()
	// package initialisers
	func() {
		defer func() {
			if r := recover(); r != nil {
				if tp, ok := r.(targetPanic); ok {
					panic(engineError{"panic during package initialisation: " + toString(tp.v) + "\n" + tp.where})
				}
				panic(r)
			}
		}()
		if init := e.Fn.Pkg.Func("init"); init != nil {
			call(i, nil, 0, init, nil)
		}
	}()
	res.InitSteps = i.steps
	i.steps = 0 // do not charge initialisation to the harness budget
	if i.funcsRun != nil {
		i.funcsRun = make(map[*ssa.Function]int64)
	}
	call(i, nil, 0, e.Fn, nil)
	res.Status = "done"
	if debugTrace {
		fmt.Fprintf(os.Stderr, "PATH %s\n", strings.Join(ex.dbg, " | "))
	}
	if ex.pos < len(ex.prefix) {
		engineErr = fmt.Sprintf("%s: path ended with %d unused trace entries (non-deterministic execution)", e.Harness, len(ex.prefix)-ex.pos)
	}
	// sample inputs for evidence / translator validation (first paths only)
	if ex.cfg.ConcreteInputs == nil && e.sampled.Add(1) <= 24 {
		if m, r := ex.model(nil); r == resSat {
			res.Inputs = m
		}
	}
	return
}

func debugf(format string, args ...interface{}) {
	fmt.Fprintf(os.Stderr, format, args...)
}
