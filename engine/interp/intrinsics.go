package interp

// Intrinsics: the harness runtime API (verifrt), synchronisation, virtual
// time, hashing with uninterpreted compression functions, formatting,
// logging stubs and the assembly-only leaves of the standard library.

import (
	"crypto/sha256"
	"encoding/binary"
	"fmt"
	"go/token"
	"go/types"
	"math"
	"strings"

	"golang.org/x/tools/go/ssa"
)

type intrinsic func(fr *frame, args []value) value

var intrinsics = map[string]intrinsic{}

const rtPkg = "github.com/tokenized/spynode/internal/verifrt"

func reg(name string, f intrinsic) { intrinsics[name] = f }

func init() {
	// ---- verifrt: declared nondeterminism
	for name, k := range map[string]types.BasicKind{
		"Bool": types.Bool, "U8": types.Uint8, "U16": types.Uint16, "U32": types.Uint32,
		"U64": types.Uint64, "I32": types.Int32, "I64": types.Int64, "Int": types.Int,
	} {
		k := k
		reg(rtPkg+"."+name, func(fr *frame, args []value) value {
			t, _ := fr.i.ex.newInput(args[0].(string), kindWidth(k))
			return norm(t, k)
		})
	}
	reg(rtPkg+".IntRange", func(fr *frame, args []value) value {
		ex := fr.i.ex
		lo, hi := args[1].(int), args[2].(int)
		t, _ := ex.newInput(args[0].(string), 64)
		tb := ex.tb
		c := tb.and(tb.cmp(opSLe, tb.constBV(64, uint64(lo)), t), tb.cmp(opSLe, t, tb.constBV(64, uint64(hi))))
		if c.isConst() {
			if c.c == 0 {
				panic(pathEnd{reason: "assume-false"})
			}
		} else {
			ex.addPC(c)
		}
		return norm(t, types.Int)
	})
	reg(rtPkg+".Choose", func(fr *frame, args []value) value {
		ex := fr.i.ex
		name := ex.uniqueName(args[0].(string))
		n := args[1].(int)
		if n <= 0 {
			panic(engineError{"Choose with n <= 0"})
		}
		var v int
		if ex.cfg.ConcreteInputs != nil {
			v = int(ex.cfg.ConcreteInputs[name]) % n
		} else {
			v = ex.chooseN(name, n)
		}
		ex.chosen[name] = uint64(v)
		return v
	})
	reg(rtPkg+".Bytes", func(fr *frame, args []value) value {
		ex := fr.i.ex
		name := args[0].(string)
		n := args[1].(int)
		out := make([]value, n)
		for j := 0; j < n; j++ {
			t, _ := ex.newInput(fmt.Sprintf("%s[%d]", name, j), 8)
			out[j] = norm(t, types.Uint8)
		}
		return out
	})
	reg(rtPkg+".Symbolic", func(fr *frame, args []value) value { return true })
	reg(rtPkg+".Thorough", func(fr *frame, args []value) value { return thoroughTier })
	reg(rtPkg+".SymbolicFormat", func(fr *frame, args []value) value {
		fr.i.ex.fmtSymbolic = args[0].(bool)
		return nil
	})

	// ---- verifrt: assumptions, assertions, markers
	reg(rtPkg+".Assume", func(fr *frame, args []value) value {
		ex := fr.i.ex
		switch c := args[0].(type) {
		case bool:
			if !c {
				panic(pathEnd{reason: "assume-false"})
			}
		case sv:
			if v, ok := ex.known(c.t); ok {
				if !v {
					panic(pathEnd{reason: "assume-false"})
				}
				return nil
			}
			// the assumption must keep the path feasible
			if ex.pos >= len(ex.prefix) {
				r, _, _ := ex.solver.check([]*term{c.t}, false, nil)
				if r == resUnsat {
					panic(pathEnd{reason: "assume-false"})
				}
				if r == resUnknown {
					ex.res.Unknown++
				}
				ex.trace = append(ex.trace, traceEntry{kind: tkDecide, b: true})
				ex.pos = len(ex.trace)
			} else {
				e := ex.prefix[ex.pos]
				if e.kind != tkDecide {
					panic(engineError{"trace mismatch at Assume"})
				}
				ex.pos++
				ex.trace = append(ex.trace, e)
			}
			ex.addPC(c.t)
		default:
			panic(engineError{fmt.Sprintf("Assume on %T", c)})
		}
		return nil
	})
	reg(rtPkg+".Assert", func(fr *frame, args []value) value {
		fr.i.ex.assert(args[0], args[1].(string), fr.caller.pos())
		return nil
	})
	reg(rtPkg+".Reach", func(fr *frame, args []value) value {
		fr.i.ex.reach(args[0].(string))
		return nil
	})
	reg(rtPkg+".Sig", func(fr *frame, args []value) value {
		fr.i.ex.sig = sprintValues(fr, args[0].([]value))
		return nil
	})
	reg(rtPkg+".Note", func(fr *frame, args []value) value {
		ex := fr.i.ex
		if len(ex.notes) < 64 {
			ex.notes = append(ex.notes, nativeSprintf(fr, args[0].(string), args[1].([]value)))
		}
		return nil
	})
	reg(rtPkg+".Observe", func(fr *frame, args []value) value {
		ex := fr.i.ex
		ex.res.Observed = append(ex.res.Observed, sprintValues(fr, args[0].([]value)))
		return nil
	})
	// boolean connectives that do not fork
	reg(rtPkg+".And", func(fr *frame, args []value) value { return fr.i.andV(args[0], args[1]) })
	reg(rtPkg+".Or", func(fr *frame, args []value) value { return fr.i.orV(args[0], args[1]) })
	reg(rtPkg+".Not", func(fr *frame, args []value) value { return fr.i.notV(args[0]) })
	reg(rtPkg+".Implies", func(fr *frame, args []value) value { return fr.i.orV(fr.i.notV(args[0]), args[1]) })
	reg(rtPkg+".IteInt", func(fr *frame, args []value) value {
		return fr.i.iteV(args[0], args[1], args[2], types.Int)
	})
	reg(rtPkg+".IteI64", func(fr *frame, args []value) value {
		return fr.i.iteV(args[0], args[1], args[2], types.Int64)
	})
	reg(rtPkg+".IteU64", func(fr *frame, args []value) value {
		return fr.i.iteV(args[0], args[1], args[2], types.Uint64)
	})
	reg(rtPkg+".IsSymbolic", func(fr *frame, args []value) value {
		return containsSym(args[0].(iface).v)
	})
	reg(rtPkg+".BytesEq", func(fr *frame, args []value) value {
		a, b := args[0].([]value), args[1].([]value)
		if len(a) != len(b) {
			return false
		}
		var acc value = true
		for j := range a {
			acc = fr.i.andV(acc, fr.i.equalsV(types.Typ[types.Uint8], a[j], b[j]))
		}
		return acc
	})
	reg(rtPkg+".Concretize", func(fr *frame, args []value) value {
		x := args[0]
		if s, ok := x.(sv); ok {
			v := fr.i.ex.concretize(s.t, "Concretize", args[1].(int))
			return mkConcrete(s.k, v)
		}
		return x
	})

	// ---- verifrt: control
	reg(rtPkg+".Catch", func(fr *frame, args []value) (res value) {
		f := args[0]
		defer func() {
			r := recover()
			if r == nil {
				return
			}
			tp, ok := r.(targetPanic)
			if !ok {
				panic(r)
			}
			res = tuple{true, toString(tp.v)}
			if ifc, ok := tp.v.(iface); ok && ifc.t != nil {
				res = tuple{true, errorText(fr, ifc)}
			}
			// innermost function of the panic (first stack line: "  <fn> <pos>")
			site := strings.TrimSpace(tp.where)
			if k := strings.IndexAny(site, " \n"); k > 0 {
				site = site[:k]
			}
			fr.i.ex.lastPanicSite = site
		}()
		call(fr.i, fr, 0, f, nil)
		return tuple{false, ""}
	})
	reg(rtPkg+".PanicSite", func(fr *frame, args []value) value {
		return fr.i.ex.lastPanicSite
	})
	reg(rtPkg+".RunUntilBlocked", func(fr *frame, args []value) (res value) {
		f := args[0]
		defer func() {
			r := recover()
			if r == nil {
				return
			}
			bp, ok := r.(blockedPanic)
			if !ok {
				panic(r)
			}
			fr.i.ex.res.Cuts = nil
			_ = bp
			res = true
		}()
		call(fr.i, fr, 0, f, nil)
		return false
	})
	reg(rtPkg+".OnBlocked", func(fr *frame, args []value) value {
		fr.i.ex.hooks.onBlocked = args[0]
		if f, ok := args[0].(*ssa.Function); ok && f == nil {
			fr.i.ex.hooks.onBlocked = nil
		}
		return nil
	})
	reg(rtPkg+".OnSleep", func(fr *frame, args []value) value {
		fr.i.ex.hooks.onSleep = args[0]
		if f, ok := args[0].(*ssa.Function); ok && f == nil {
			fr.i.ex.hooks.onSleep = nil
		}
		return nil
	})
	reg(rtPkg+".SetStepBudget", func(fr *frame, args []value) value {
		fr.i.stepBudget = int64(args[0].(int))
		return nil
	})
	reg(rtPkg+".AllocObligation", func(fr *frame, args []value) value {
		fr.i.ex.allocObl = &allocObligation{label: args[0].(string), base: int64(args[1].(int)), perByte: int64(args[2].(int)), inputLen: int64(args[3].(int))}
		return nil
	})
	reg(rtPkg+".AllowUnbuffered", func(fr *frame, args []value) value {
		if ch, ok := args[0].(iface).v.(*channel); ok && ch != nil {
			fr.i.ex.unbuf[ch] = true
		}
		return nil
	})
	reg(rtPkg+".Goroutines", func(fr *frame, args []value) value {
		if fr.i.ex.sched == nil {
			fr.i.ex.sched = newSched(fr.i, fr.i.ex)
		}
		return nil
	})
	reg(rtPkg+".Quiesce", func(fr *frame, args []value) value {
		if fr.i.ex.sched == nil {
			panic(engineError{"verifrt.Quiesce without verifrt.Goroutines"})
		}
		fr.i.ex.sched.quiesce()
		return nil
	})
	reg(rtPkg+".RealTime", func(fr *frame, args []value) value { return nil })
	reg(rtPkg+".Yield", func(fr *frame, args []value) value {
		if fr.i.ex.sched != nil {
			fr.i.ex.sched.yield()
		}
		return nil
	})
	reg(rtPkg+".Spawned", func(fr *frame, args []value) value {
		n := 0
		for _, g := range fr.i.spawned {
			if !g.done {
				n++
			}
		}
		return n
	})
	reg(rtPkg+".RunSpawned", func(fr *frame, args []value) (res value) {
		// runs the k-th not-yet-run spawned goroutine as a sequential unit
		k := args[0].(int)
		var g *spawnedGo
		for _, c := range fr.i.spawned {
			if !c.done {
				if k == 0 {
					g = c
					break
				}
				k--
			}
		}
		if g == nil {
			return false
		}
		g.done = true
		defer func() {
			r := recover()
			if r == nil {
				return
			}
			if _, ok := r.(blockedPanic); !ok {
				panic(r)
			}
			res = true
		}()
		call(fr.i, fr, g.pos, g.fn, g.args)
		return false
	})
	reg(rtPkg+".DropSpawned", func(fr *frame, args []value) value {
		for _, c := range fr.i.spawned {
			c.done = true
		}
		return nil
	})

	reg(rtPkg+".SetDialConn", func(fr *frame, args []value) value {
		fr.i.ex.dialConn = args[0]
		return nil
	})
	reg("(*net.Dialer).DialContext", func(fr *frame, args []value) value {
		c := fr.i.ex.dialConn
		if c == nil {
			panic(engineError{"net.Dialer.DialContext without verifrt.SetDialConn"})
		}
		ifc := c.(iface)
		if ifc.t == nil {
			// harness models a failed dial
			return tuple{iface{}, mkError(fr, "dial failed (harness)")}
		}
		return tuple{ifc, iface{}}
	})
	reg("net.IPv4", func(fr *frame, args []value) value {
		ip := make([]value, 16)
		for j := 0; j < 10; j++ {
			ip[j] = uint8(0)
		}
		ip[10], ip[11] = uint8(0xff), uint8(0xff)
		for j := 0; j < 4; j++ {
			ip[12+j] = args[j]
		}
		return ip
	})
	reg("(net.IP).To4", func(fr *frame, args []value) value {
		ip, _ := args[0].([]value)
		if len(ip) == 4 {
			return ip
		}
		if len(ip) == 16 {
			return ip[12:16]
		}
		return []value(nil)
	})
	reg("(net.IP).To16", func(fr *frame, args []value) value {
		ip, _ := args[0].([]value)
		if len(ip) == 16 {
			return ip
		}
		if len(ip) == 4 {
			out := make([]value, 16)
			for j := 0; j < 10; j++ {
				out[j] = uint8(0)
			}
			out[10], out[11] = uint8(0xff), uint8(0xff)
			copy(out[12:], ip)
			return out
		}
		return []value(nil)
	})
	reg("net.Dial", func(fr *frame, args []value) value {
		c := fr.i.ex.dialConn
		if c == nil {
			panic(engineError{"net.Dial without verifrt.SetDialConn"})
		}
		ifc := c.(iface)
		if ifc.t == nil {
			return tuple{iface{}, mkError(fr, "dial failed (harness)")}
		}
		return tuple{ifc, iface{}}
	})
	// ---- verifrt: virtual clock
	reg(rtPkg+".Advance", func(fr *frame, args []value) value {
		ex := fr.i.ex
		ex.clock = fr.i.binopV(tokenADD, types.Typ[types.Int64], ex.clock, args[0])
		return nil
	})
	reg(rtPkg+".NowNanos", func(fr *frame, args []value) value { return fr.i.ex.clock })
	reg(rtPkg+".WriteSetBegin", func(fr *frame, args []value) value { return nil })

	// ---- sync
	reg("(*sync.Mutex).Lock", mutexLock)
	reg("(*sync.Mutex).Unlock", mutexUnlock)
	reg("(*sync.Mutex).TryLock", func(fr *frame, args []value) value {
		m := fr.i.mutex(args[0].(*value))
		if m.locked || m.readers > 0 {
			return false
		}
		m.locked = true
		return true
	})
	reg("(*sync.RWMutex).Lock", mutexLock)
	reg("(*sync.RWMutex).Unlock", mutexUnlock)
	reg("(*sync.RWMutex).RLock", func(fr *frame, args []value) value {
		m := fr.i.mutex(args[0].(*value))
		for m.locked {
			if !fr.i.ex.onBlocked(fr, "rlock", nil) {
				panic(blockedPanic{"deadlock: RLock of write-locked RWMutex at " + fr.caller.pos()})
			}
		}
		m.readers++
		return nil
	})
	reg("(*sync.RWMutex).RUnlock", func(fr *frame, args []value) value {
		m := fr.i.mutex(args[0].(*value))
		if m.readers <= 0 {
			panic(targetPanic{v: "sync: RUnlock of unlocked RWMutex", rt: true})
		}
		m.readers--
		return nil
	})
	reg("(*sync.WaitGroup).Add", func(fr *frame, args []value) value {
		m := fr.i.mutex(args[0].(*value))
		m.counter += args[1].(int)
		if m.counter < 0 {
			panic(targetPanic{v: "sync: negative WaitGroup counter", rt: true})
		}
		return nil
	})
	reg("(*sync.WaitGroup).Done", func(fr *frame, args []value) value {
		m := fr.i.mutex(args[0].(*value))
		m.counter--
		if m.counter < 0 {
			panic(targetPanic{v: "sync: negative WaitGroup counter", rt: true})
		}
		return nil
	})
	reg("(*sync.WaitGroup).Wait", func(fr *frame, args []value) value {
		m := fr.i.mutex(args[0].(*value))
		for m.counter > 0 {
			if !fr.i.ex.onBlocked(fr, "waitgroup", nil) {
				panic(blockedPanic{"WaitGroup.Wait with counter > 0 at " + fr.caller.pos()})
			}
		}
		return nil
	})
	reg("(*sync.Once).Do", func(fr *frame, args []value) value {
		m := fr.i.mutex(args[0].(*value))
		if !m.locked {
			m.locked = true
			call(fr.i, fr, 0, args[1], nil)
		}
		return nil
	})
	reg("(*sync/atomic.Value).Load", func(fr *frame, args []value) value {
		p := derefPtr(args[0])
		return (*p).(structure)[0]
	})
	reg("(*sync/atomic.Value).Store", func(fr *frame, args []value) value {
		p := derefPtr(args[0])
		v := args[1].(iface)
		if v.t == nil {
			panic(targetPanic{v: "sync/atomic: store of nil value into Value", rt: true})
		}
		old := (*p).(structure)[0].(iface)
		if old.t != nil && !types.Identical(old.t, v.t) {
			panic(targetPanic{v: "sync/atomic: store of inconsistently typed value into Value", rt: true})
		}
		(*p).(structure)[0] = v
		return nil
	})
	reg("(*sync/atomic.Value).Swap", func(fr *frame, args []value) value {
		p := derefPtr(args[0])
		old := (*p).(structure)[0]
		(*p).(structure)[0] = args[1]
		return old
	})
	for _, nm := range []string{"Int32", "Int64", "Uint32", "Uint64", "Uintptr"} {
		nm := nm
		reg("sync/atomic.Load"+nm, func(fr *frame, args []value) value { return *derefPtr(args[0]) })
		reg("sync/atomic.Store"+nm, func(fr *frame, args []value) value { *derefPtr(args[0]) = args[1]; return nil })
		reg("sync/atomic.Add"+nm, func(fr *frame, args []value) value {
			p := derefPtr(args[0])
			*p = fr.i.binopV(tokenADD, nil, *p, args[1])
			return *p
		})
		reg("sync/atomic.Swap"+nm, func(fr *frame, args []value) value {
			p := derefPtr(args[0])
			old := *p
			*p = args[1]
			return old
		})
		reg("sync/atomic.CompareAndSwap"+nm, func(fr *frame, args []value) value {
			p := derefPtr(args[0])
			if fr.i.decideV(fr.i.equalsV(nil, *p, args[1])) {
				*p = args[2]
				return true
			}
			return false
		})
	}
	reg("sync/atomic.LoadPointer", func(fr *frame, args []value) value { return *derefPtr(args[0]) })
	reg("sync/atomic.StorePointer", func(fr *frame, args []value) value { *derefPtr(args[0]) = args[1]; return nil })

	// ---- runtime
	reg("runtime.Callers", func(fr *frame, args []value) value { return 0 })
	reg("runtime.Gosched", func(fr *frame, args []value) value { return nil })
	reg("runtime.GC", func(fr *frame, args []value) value { return nil })
	reg("runtime.KeepAlive", func(fr *frame, args []value) value { return nil })
	reg("runtime.SetFinalizer", func(fr *frame, args []value) value { return nil })
	reg("runtime.GOMAXPROCS", func(fr *frame, args []value) value { return 1 })
	reg("runtime.NumCPU", func(fr *frame, args []value) value { return 1 })
	reg("runtime.NumGoroutine", func(fr *frame, args []value) value { return 1 })
	reg("os.Getenv", func(fr *frame, args []value) value { return "" })
	reg("os.runtime_args", func(fr *frame, args []value) value { return []value(nil) })
	reg("syscall.runtime_envs", func(fr *frame, args []value) value { return []value(nil) })
	reg("os.runtime_beforeExit", func(fr *frame, args []value) value { return nil })
	reg("internal/godebug.New", func(fr *frame, args []value) value { return (*value)(nil) })
	reg("(*internal/godebug.Setting).Value", func(fr *frame, args []value) value { return "" })
	reg("(*internal/godebug.Setting).IncNonDefault", func(fr *frame, args []value) value { return nil })

	// ---- math
	reg("math.Float64bits", func(fr *frame, args []value) value { return math.Float64bits(args[0].(float64)) })
	reg("math.Float64frombits", func(fr *frame, args []value) value { return math.Float64frombits(args[0].(uint64)) })
	reg("math.Float32bits", func(fr *frame, args []value) value { return math.Float32bits(args[0].(float32)) })
	reg("math.Float32frombits", func(fr *frame, args []value) value { return math.Float32frombits(args[0].(uint32)) })
	reg("math.Floor", func(fr *frame, args []value) value { return math.Floor(args[0].(float64)) })
	reg("math.Ceil", func(fr *frame, args []value) value { return math.Ceil(args[0].(float64)) })

	// ---- bytes / strings assembly leaves
	reg("internal/bytealg.IndexByte", bytealgIndexByte)
	reg("internal/bytealg.IndexByteString", func(fr *frame, args []value) value {
		return strings.IndexByte(args[0].(string), args[1].(byte))
	})
	reg("internal/bytealg.Equal", func(fr *frame, args []value) value {
		a, b := args[0].([]value), args[1].([]value)
		if len(a) != len(b) {
			return false
		}
		var acc value = true
		for j := range a {
			acc = fr.i.andV(acc, fr.i.equalsV(types.Typ[types.Uint8], a[j], b[j]))
			if bb, ok := acc.(bool); ok && !bb {
				return false
			}
		}
		return acc
	})
	reg("internal/bytealg.Compare", func(fr *frame, args []value) value {
		a, b := args[0].([]value), args[1].([]value)
		for j := 0; j < len(a) && j < len(b); j++ {
			x, y := a[j], b[j]
			if isSym(x) || isSym(y) {
				if fr.i.decideV(fr.i.equalsV(types.Typ[types.Uint8], x, y)) {
					continue
				}
				if fr.i.decideV(fr.i.binopV(tokenLSS, types.Typ[types.Uint8], x, y)) {
					return -1
				}
				return 1
			}
			if x.(uint8) < y.(uint8) {
				return -1
			}
			if x.(uint8) > y.(uint8) {
				return 1
			}
		}
		switch {
		case len(a) < len(b):
			return -1
		case len(a) > len(b):
			return 1
		}
		return 0
	})
	reg("internal/bytealg.CountString", func(fr *frame, args []value) value {
		return strings.Count(args[0].(string), string([]byte{args[1].(byte)}))
	})
	reg("internal/bytealg.IndexString", func(fr *frame, args []value) value {
		return strings.Index(args[0].(string), args[1].(string))
	})
	reg("strings.Index", func(fr *frame, args []value) value {
		return strings.Index(args[0].(string), args[1].(string))
	})
	reg("strings.IndexByte", func(fr *frame, args []value) value {
		return strings.IndexByte(args[0].(string), args[1].(byte))
	})
	reg("strings.Contains", func(fr *frame, args []value) value {
		return strings.Contains(args[0].(string), args[1].(string))
	})
	reg("strings.HasPrefix", func(fr *frame, args []value) value {
		return strings.HasPrefix(args[0].(string), args[1].(string))
	})
	reg("strings.HasSuffix", func(fr *frame, args []value) value {
		return strings.HasSuffix(args[0].(string), args[1].(string))
	})
	reg("strings.ToLower", func(fr *frame, args []value) value { return strings.ToLower(args[0].(string)) })
	reg("strings.ToUpper", func(fr *frame, args []value) value { return strings.ToUpper(args[0].(string)) })
	reg("strings.TrimSpace", func(fr *frame, args []value) value { return strings.TrimSpace(args[0].(string)) })
	reg("strings.Split", func(fr *frame, args []value) value {
		parts := strings.Split(args[0].(string), args[1].(string))
		out := make([]value, len(parts))
		for j, p := range parts {
			out[j] = p
		}
		return out
	})
	reg("strings.Join", func(fr *frame, args []value) value {
		var parts []string
		for _, p := range args[0].([]value) {
			parts = append(parts, p.(string))
		}
		return strings.Join(parts, args[1].(string))
	})
	reg("strings.Repeat", func(fr *frame, args []value) value {
		return strings.Repeat(args[0].(string), args[1].(int))
	})

	reg("crypto/internal/boring.Unreachable", func(fr *frame, args []value) value { return nil })
	reg("crypto/internal/boring.UnreachableExceptTests", func(fr *frame, args []value) value { return nil })
	reg("crypto/internal/boring/sig.StandardCrypto", func(fr *frame, args []value) value { return nil })
	reg("crypto/internal/boring/sig.BoringCrypto", func(fr *frame, args []value) value { return nil })
	// ---- hashing
	reg("crypto/sha256.block", sha256Block)
	reg("crypto/sha256.blockGeneric", sha256Block)
	reg("golang.org/x/crypto/ripemd160._Block", ripemdBlock)

	// ---- randomness: fresh symbolic bytes
	reg("crypto/rand.Read", randRead)
	reg("math/rand.Read", randRead)
	reg("math/rand.Uint64", func(fr *frame, args []value) value {
		t, _ := fr.i.ex.newInput("rand.Uint64", 64)
		return norm(t, types.Uint64)
	})
	reg("math/rand.Uint32", func(fr *frame, args []value) value {
		t, _ := fr.i.ex.newInput("rand.Uint32", 32)
		return norm(t, types.Uint32)
	})

	// Tokenized action decoder (envelope + protobuf): an uninterpreted classifier.  Scripts
	// carrying one of the harness markers classify as the corresponding action (the native
	// replay builds real scripts of those kinds); every other script is "not Tokenized".
	reg("github.com/tokenized/specification/dist/golang/protocol.Deserialize", func(fr *frame, args []value) value {
		script := args[0].([]value)
		// a script that starts with OP_FALSE (the real envelope prefix; the harness markers start
		// with OP_RETURN) is decoded by the real function: harnesses use that for malformed
		// envelopes, which the real parser must refuse without reaching the protobuf decoder
		if len(script) > 0 {
			if b, isB := script[0].(uint8); isB && b == 0x00 {
				return callSSAnoIntrinsic(fr.i, fr.caller, fr.fn, args)
			}
		}
		marker := []byte("\x6a\x02\xbd\x01VERIF")
		kind := byte(0)
		if len(script) >= len(marker)+2 {
			ok := true
			for j, m := range marker {
				b, isB := script[j].(uint8)
				if !isB || b != m {
					ok = false
					break
				}
			}
			if ok {
				if b, isB := script[len(marker)].(uint8); isB {
					kind = b
				}
			}
		}
		actPkg := fr.i.prog.ImportedPackage("github.com/tokenized/specification/dist/golang/actions")
		protoPkg := fr.i.prog.ImportedPackage("github.com/tokenized/specification/dist/golang/protocol")
		mkAction := func(name string) value {
			tn := actPkg.Type(name)
			if tn == nil {
				panic(engineError{"actions." + name + " not found"})
			}
			cell := zero(tn.Type())
			return tuple{iface{t: types.NewPointer(tn.Type()), v: &cell}, iface{}}
		}
		fr.i.ex.noteAssumption("protocol.Deserialize is an uninterpreted classifier: harness-marked scripts are ContractFormation / InstrumentCreation / Transfer, all other scripts are not Tokenized")
		switch kind {
		case 'C':
			return mkAction("ContractFormation")
		case 'I':
			return mkAction("InstrumentCreation")
		case 'T':
			return mkAction("Transfer")
		}
		_ = protoPkg
		return tuple{iface{}, mkError(fr, "Not Tokenized (classifier model)")}
	})

	registerTime()
	registerFmt()
}

const (
	tokenADD = token.ADD
	tokenSUB = token.SUB
	tokenLSS = token.LSS
	tokenGTR = token.GTR
)

func (i *interpreter) iteV(c, a, b value, k types.BasicKind) value {
	if cb, ok := c.(bool); ok {
		if cb {
			return a
		}
		return b
	}
	ta, _ := i.toTerm(a)
	tb2, _ := i.toTerm(b)
	return norm(i.ex.tb.ite(c.(sv).t, ta, tb2), k)
}

// ---------------------------------------------------------------------------
// mutexes

type mutexState struct {
	locked  bool
	readers int
	counter int
	where   string
}

func (i *interpreter) mutex(p *value) *mutexState {
	if p == nil {
		panic(rtPanic("invalid memory address or nil pointer dereference"))
	}
	m := i.mutexes[p]
	if m == nil {
		m = &mutexState{}
		i.mutexes[p] = m
	}
	return m
}

func mutexLock(fr *frame, args []value) value {
	m := fr.i.mutex(args[0].(*value))
	for m.locked || m.readers > 0 {
		if !fr.i.ex.onBlocked(fr, "lock", nil) {
			panic(blockedPanic{"deadlock: Lock of locked mutex at " + fr.caller.pos() + " (held since " + m.where + ")"})
		}
	}
	m.locked = true
	m.where = fr.caller.pos()
	return nil
}

func mutexUnlock(fr *frame, args []value) value {
	m := fr.i.mutex(args[0].(*value))
	if !m.locked {
		panic(targetPanic{v: "sync: unlock of unlocked mutex", rt: true})
	}
	m.locked = false
	return nil
}

// ---------------------------------------------------------------------------
// stubs for logging / metrics packages

func stubCall(fr *frame, fn *ssa.Function, args []value) value {
	res := fn.Signature.Results()
	mk := func(t types.Type) value {
		// functions returning a context return their context argument
		if named, ok := t.(*types.Named); ok && named.Obj().Pkg() != nil && named.Obj().Pkg().Path() == "context" && named.Obj().Name() == "Context" {
			params := fn.Signature.Params()
			off := 0
			if fn.Signature.Recv() != nil {
				off = 1
			}
			for j := 0; j < params.Len(); j++ {
				if types.Identical(params.At(j).Type(), t) {
					return args[j+off]
				}
			}
		}
		return zero(t)
	}
	switch res.Len() {
	case 0:
		return nil
	case 1:
		return mk(res.At(0).Type())
	}
	out := make(tuple, res.Len())
	for j := range out {
		out[j] = mk(res.At(j).Type())
	}
	return out
}

// ---------------------------------------------------------------------------
// bytes

func bytealgIndexByte(fr *frame, args []value) value {
	b := args[0].([]value)
	c := args[1]
	for j, x := range b {
		if isSym(x) || isSym(c) {
			if fr.i.decideV(fr.i.equalsV(types.Typ[types.Uint8], x, c)) {
				return j
			}
			continue
		}
		if x.(uint8) == c.(uint8) {
			return j
		}
	}
	return -1
}

func randRead(fr *frame, args []value) value {
	ex := fr.i.ex
	b := args[0].([]value)
	draw := make([]*term, len(b))
	for j := range b {
		t, _ := ex.newInput("rand.byte", 8)
		draw[j] = t
		b[j] = norm(t, types.Uint8)
	}
	// Two draws of at least 16 bytes from the random source differ (an assumption about the
	// source, recorded with the path): without it "a fresh value per connection" is unprovable.
	if len(b) >= 16 {
		for _, prev := range ex.randDraws {
			if len(prev) != len(draw) {
				continue
			}
			differ := ex.tb.constBool(false)
			for j := range draw {
				differ = ex.tb.or(differ, ex.tb.not(ex.tb.eq(draw[j], prev[j])))
			}
			ex.addPC(differ)
			ex.noteAssumption("two draws of >= 16 random bytes are distinct")
		}
		ex.randDraws = append(ex.randDraws, draw)
	}
	return tuple{len(b), iface{}}
}

// ---------------------------------------------------------------------------
// SHA-256 / RIPEMD-160 compression

type shaApp struct {
	fn  string
	in  *term // state ++ block
	out *term
}

var sha256K = [64]uint32{
	0x428a2f98, 0x71374491, 0xb5c0fbcf, 0xe9b5dba5, 0x3956c25b, 0x59f111f1, 0x923f82a4, 0xab1c5ed5,
	0xd807aa98, 0x12835b01, 0x243185be, 0x550c7dc3, 0x72be5d74, 0x80deb1fe, 0x9bdc06a7, 0xc19bf174,
	0xe49b69c1, 0xefbe4786, 0x0fc19dc6, 0x240ca1cc, 0x2de92c6f, 0x4a7484aa, 0x5cb0a9dc, 0x76f988da,
	0x983e5152, 0xa831c66d, 0xb00327c8, 0xbf597fc7, 0xc6e00bf3, 0xd5a79147, 0x06ca6351, 0x14292967,
	0x27b70a85, 0x2e1b2138, 0x4d2c6dfc, 0x53380d13, 0x650a7354, 0x766a0abb, 0x81c2c92e, 0x92722c85,
	0xa2bfe8a1, 0xa81a664b, 0xc24b8b70, 0xc76c51a3, 0xd192e819, 0xd6990624, 0xf40e3585, 0x106aa070,
	0x19a4c116, 0x1e376c08, 0x2748774c, 0x34b0bcb5, 0x391c0cb3, 0x4ed8aa4a, 0x5b9cca4f, 0x682e6ff3,
	0x748f82ee, 0x78a5636f, 0x84c87814, 0x8cc70208, 0x90befffa, 0xa4506ceb, 0xbef9a3f7, 0xc67178f2,
}

func rotr32(x uint32, n uint) uint32 { return x>>n | x<<(32-n) }

func sha256Compress(h *[8]uint32, p []byte) {
	var w [64]uint32
	for len(p) >= 64 {
		for i := 0; i < 16; i++ {
			w[i] = binary.BigEndian.Uint32(p[i*4:])
		}
		for i := 16; i < 64; i++ {
			v1 := w[i-2]
			t1 := rotr32(v1, 17) ^ rotr32(v1, 19) ^ (v1 >> 10)
			v2 := w[i-15]
			t2 := rotr32(v2, 7) ^ rotr32(v2, 18) ^ (v2 >> 3)
			w[i] = t1 + w[i-7] + t2 + w[i-16]
		}
		a, b, c, d, e, f, g, hh := h[0], h[1], h[2], h[3], h[4], h[5], h[6], h[7]
		for i := 0; i < 64; i++ {
			t1 := hh + (rotr32(e, 6) ^ rotr32(e, 11) ^ rotr32(e, 25)) + ((e & f) ^ (^e & g)) + sha256K[i] + w[i]
			t2 := (rotr32(a, 2) ^ rotr32(a, 13) ^ rotr32(a, 22)) + ((a & b) ^ (a & c) ^ (b & c))
			hh = g
			g = f
			f = e
			e = d + t1
			d = c
			c = b
			b = a
			a = t1 + t2
		}
		h[0] += a
		h[1] += b
		h[2] += c
		h[3] += d
		h[4] += e
		h[5] += f
		h[6] += g
		h[7] += hh
		p = p[64:]
	}
}

func init() {
	// self-check of the native compression function against crypto/sha256
	h := [8]uint32{0x6a09e667, 0xbb67ae85, 0x3c6ef372, 0xa54ff53a, 0x510e527f, 0x9b05688c, 0x1f83d9ab, 0x5be0cd19}
	var blk [64]byte
	blk[0] = 0x80
	sha256Compress(&h, blk[:])
	want := sha256.Sum256(nil)
	var got [32]byte
	for i := 0; i < 8; i++ {
		binary.BigEndian.PutUint32(got[i*4:], h[i])
	}
	if got != want {
		panic("sha256Compress self-check failed")
	}
}

// sha256Block implements crypto/sha256.block(dig *digest, p []byte).
func sha256Block(fr *frame, args []value) value {
	dig := derefPtr(args[0])
	p := args[1].([]value)
	st := (*dig).(structure)
	harr := st[0].(array)
	allConcrete := true
	for _, x := range harr {
		if isSym(x) {
			allConcrete = false
		}
	}
	for _, x := range p {
		if isSym(x) {
			allConcrete = false
		}
	}
	ex := fr.i.ex
	if allConcrete {
		var h [8]uint32
		for j := range h {
			h[j] = harr[j].(uint32)
		}
		buf := make([]byte, len(p))
		for j := range p {
			buf[j] = p[j].(uint8)
		}
		if len(ex.shaApps) > 0 || true {
			// record concrete applications (per 64-byte chunk) for consistency
			// with uninterpreted ones that may appear later on this path
			for off := 0; off+64 <= len(buf); off += 64 {
				before := h
				sha256Compress(&h, buf[off:off+64])
				ex.recordConcreteCompress("sha256c", u32sToBytes(before[:]), buf[off:off+64], u32sToBytes(h[:]))
			}
		}
		for j := range h {
			harr[j] = h[j]
		}
		return nil
	}
	tb := ex.tb
	// state as one 256-bit term
	cur := make([]*term, 8)
	for j := range cur {
		cur[j], _ = fr.i.toTerm(harr[j])
	}
	for off := 0; off+64 <= len(p); off += 64 {
		in := make([]*term, 0, 8+64)
		in = append(in, cur...)
		for j := 0; j < 64; j++ {
			t, _ := fr.i.toTerm(p[off+j])
			in = append(in, t)
		}
		out := ex.ufCompress("sha256c", in, 256)
		for j := 0; j < 8; j++ {
			cur[j] = tb.extract(out, 255-32*j, 224-32*j)
		}
	}
	for j := range cur {
		harr[j] = norm(cur[j], types.Uint32)
	}
	return nil
}

func u32sToBytes(h []uint32) []byte {
	out := make([]byte, 4*len(h))
	for j, x := range h {
		binary.BigEndian.PutUint32(out[4*j:], x)
	}
	return out
}

type concreteCompress struct {
	fn      string
	in, out []byte
}

func (ex *pathExec) recordConcreteCompress(fn string, state, block, out []byte) {
	in := append(append([]byte{}, state...), block...)
	if len(ex.shaApps) == 0 {
		// keep only a bounded number; consistency axioms are emitted lazily
		if len(ex.shaConcrete) < 256 {
			ex.shaConcrete = append(ex.shaConcrete, concreteCompress{fn, in, append([]byte{}, out...)})
		} else {
			ex.shaConcreteOverflow = true
		}
		return
	}
	ex.axiomConcrete(concreteCompress{fn, in, append([]byte{}, out...)})
	ex.shaConcrete = append(ex.shaConcrete, concreteCompress{fn, in, append([]byte{}, out...)})
}

func (ex *pathExec) bytesTerm(b []byte) *term {
	tb := ex.tb
	var t *term
	for _, x := range b {
		c := tb.constBV(8, uint64(x))
		if t == nil {
			t = c
		} else {
			t = tb.mk(opConcat, t.w+8, []*term{t, c}, 0, 0, 0, "")
		}
	}
	return t
}

func (ex *pathExec) axiomConcrete(c concreteCompress) {
	tb := ex.tb
	cin := ex.bytesTerm(c.in)
	cout := ex.bytesTerm(c.out)
	for _, a := range ex.shaApps {
		if a.fn != c.fn || a.in.w != cin.w {
			continue
		}
		// in equal <=> out equal
		e1 := tb.eq(a.in, cin)
		e2 := tb.eq(a.out, cout)
		ex.addPC(tb.eq(e1, e2))
	}
}

// ufCompress applies the uninterpreted compression function fn to the
// concatenation of parts and adds injectivity axioms against every earlier
// application on this path.
func (ex *pathExec) ufCompress(fn string, parts []*term, outW int) *term {
	tb := ex.tb
	var in *term
	for _, p := range parts {
		if in == nil {
			in = p
		} else {
			in = tb.concat2(in, p)
		}
	}
	name := fmt.Sprintf("%s_%d", fn, in.w)
	out := tb.uf(name, outW, []*term{in})
	for _, a := range ex.shaApps {
		if a.in == in {
			return a.out
		}
	}
	if ex.shaConcreteOverflow {
		panic(engineError{"too many concrete hash applications before a symbolic one"})
	}
	first := len(ex.shaApps) == 0
	for _, a := range ex.shaApps {
		if a.fn == fn && a.in.w == in.w {
			ex.addPC(tb.eq(tb.eq(a.in, in), tb.eq(a.out, out)))
		} else if a.out.w == out.w {
			// different function or different input length: no collisions
			ex.addPC(tb.not(tb.eq(a.out, out)))
		}
	}
	ex.shaApps = append(ex.shaApps, shaApp{fn, in, out})
	if first {
		for _, c := range ex.shaConcrete {
			ex.axiomConcrete(c)
		}
	} else {
		for _, c := range ex.shaConcrete {
			if c.fn == fn {
				cin := ex.bytesTerm(c.in)
				if cin.w == in.w {
					ex.addPC(tb.eq(tb.eq(in, cin), tb.eq(out, ex.bytesTerm(c.out))))
				}
			}
		}
	}
	return out
}

// concat2 concatenates without the ≤64-bit constant folding limit mattering.
func (tb *termTable) concat2(hi, lo *term) *term {
	if hi.w+lo.w <= 64 {
		return tb.concat(hi, lo)
	}
	if hi.op == opExtract && lo.op == opExtract && hi.args[0] == lo.args[0] && hi.imm1 == lo.imm0+1 {
		return tb.extract(hi.args[0], hi.imm0, lo.imm1)
	}
	return tb.mk(opConcat, hi.w+lo.w, []*term{hi, lo}, 0, 0, 0, "")
}

// ripemdBlock implements ripemd160._Block(md *digest, p []byte) int for
// symbolic input; concrete input runs the real Go code.
func ripemdBlock(fr *frame, args []value) value {
	dig := derefPtr(args[0])
	p := args[1].([]value)
	st := (*dig).(structure)
	sarr := st[0].(array) // s [5]uint32
	sym := false
	for _, x := range sarr {
		if isSym(x) {
			sym = true
		}
	}
	for _, x := range p {
		if isSym(x) {
			sym = true
		}
	}
	if !sym {
		// run the real implementation
		fn := fr.fn
		return callSSAnoIntrinsic(fr.i, fr.caller, fn, args)
	}
	ex := fr.i.ex
	tb := ex.tb
	cur := make([]*term, 5)
	for j := range cur {
		cur[j], _ = fr.i.toTerm(sarr[j])
	}
	n := 0
	for off := 0; off+64 <= len(p); off += 64 {
		in := make([]*term, 0, 5+64)
		in = append(in, cur...)
		for j := 0; j < 64; j++ {
			t, _ := fr.i.toTerm(p[off+j])
			in = append(in, t)
		}
		out := ex.ufCompress("ripemdc", in, 160)
		for j := 0; j < 5; j++ {
			cur[j] = tb.extract(out, 159-32*j, 128-32*j)
		}
		n += 64
	}
	for j := range cur {
		sarr[j] = norm(cur[j], types.Uint32)
	}
	return n
}

// callSSAnoIntrinsic interprets fn's real body even though an intrinsic is
// registered for it.
func callSSAnoIntrinsic(i *interpreter, caller *frame, fn *ssa.Function, args []value) value {
	name := fn.String()
	saved := intrinsicsBypass[name]
	_ = saved
	fr := &frame{i: i, caller: caller, fn: fn}
	if fn.Blocks == nil {
		panic(engineError{"no code for function: " + name})
	}
	cf := compileFunc(fn)
	fr.cf = cf
	fr.env = make([]value, cf.nslots)
	fr.block = fn.Blocks[0]
	fr.locals = make([]value, len(fn.Locals))
	for j, l := range fn.Locals {
		fr.locals[j] = zero(deref(l.Type()))
		fr.env[cf.slot[l]] = &fr.locals[j]
	}
	for j, p := range fn.Params {
		fr.env[cf.slot[p]] = args[j]
	}
	for fr.block != nil {
		runFrame(fr)
	}
	return fr.result
}

var intrinsicsBypass = map[string]bool{}

// errorText calls the target's Error() method on an error value.
func errorText(fr *frame, e iface) string {
	if e.t == nil {
		return "<nil>"
	}
	if s, ok := e.v.(string); ok {
		return s
	}
	m := findMethod(fr.i, e.t, "Error")
	if m == nil {
		m = findMethod(fr.i, e.t, "String")
	}
	if m == nil {
		return toString(e.v)
	}
	r := call(fr.i, fr, 0, m, []value{e.v})
	if s, ok := r.(string); ok {
		return s
	}
	return "<symbolic text>"
}

func findMethod(i *interpreter, t types.Type, name string) *ssa.Function {
	ms := i.prog.MethodSets.MethodSet(t)
	for j := 0; j < ms.Len(); j++ {
		sel := ms.At(j)
		if sel.Obj().Name() == name {
			sig := sel.Type().(*types.Signature)
			if sig.Params().Len() == 0 && sig.Results().Len() == 1 {
				return i.prog.MethodValue(sel)
			}
		}
	}
	return nil
}
