package interp

// math/big.Int as a byte blob.  Package math/big stays opaque; the handful of
// methods the key/signature (de)serialisers of tokenized/pkg/bitcoin use are
// modelled on a private representation: Int = {neg bool, abs nat} where abs
// holds one magnitude BYTE per element (big-endian, no leading zeros).
// Comparisons against secp256k1 curve constants (which are not initialised,
// the curve package being opaque) answer "smaller" — i.e. keys/signatures are
// assumed to be in range and low-S; stated in every evidence file that uses
// them.

import (
	"fmt"
	"go/token"
	"go/types"
)

func bigAbs(p value) (*value, []value) {
	ptr := derefPtr(p)
	st, ok := (*ptr).(structure)
	if !ok {
		panic(engineError{fmt.Sprintf("big.Int receiver is %T", *ptr)})
	}
	abs, _ := st[1].([]value)
	return ptr, abs
}

func bigSet(p value, neg bool, abs []value) {
	ptr := derefPtr(p)
	st := (*ptr).(structure)
	st[0] = neg
	st[1] = abs
}

var uintT = types.Typ[types.Uint]
var u8T = types.Typ[types.Uint8]

func init() {
	reg("(*math/big.Int).SetBytes", func(fr *frame, args []value) value {
		b := args[1].([]value)
		// strip leading zero bytes
		k := 0
		for k < len(b) {
			if !fr.i.decideV(fr.i.equalsV(u8T, b[k], uint8(0))) {
				break
			}
			k++
		}
		abs := make([]value, len(b)-k)
		for j := range abs {
			abs[j] = fr.i.convV(uintT, u8T, b[k+j])
		}
		bigSet(args[0], false, abs)
		return args[0]
	})
	reg("(*math/big.Int).Bytes", func(fr *frame, args []value) value {
		_, abs := bigAbs(args[0])
		out := make([]value, len(abs))
		for j := range abs {
			out[j] = fr.i.convV(u8T, uintT, abs[j])
		}
		return out
	})
	reg("(*math/big.Int).Sign", func(fr *frame, args []value) value {
		ptr, abs := bigAbs(args[0])
		if len(abs) == 0 {
			return 0
		}
		if (*ptr).(structure)[0].(bool) {
			return -1
		}
		return 1
	})
	reg("(*math/big.Int).Set", func(fr *frame, args []value) value {
		if _, isP := args[1].(poison); isP {
			panic(engineError{"big.Int.Set from uninitialised curve constant"})
		}
		ptr, abs := bigAbs(args[1])
		bigSet(args[0], (*ptr).(structure)[0].(bool), append([]value(nil), abs...))
		return args[0]
	})
	reg("(*math/big.Int).Cmp", func(fr *frame, args []value) value {
		if _, isP := args[1].(poison); isP {
			fr.i.ex.noteAssumption("big.Int values compared with secp256k1 curve constants are assumed smaller (in-range keys, low-S signatures)")
			return -1
		}
		if _, isP := args[0].(poison); isP {
			return 1
		}
		_, a := bigAbs(args[0])
		_, b := bigAbs(args[1])
		if len(a) != len(b) {
			if len(a) < len(b) {
				return -1
			}
			return 1
		}
		for j := range a {
			if fr.i.decideV(fr.i.equalsV(uintT, a[j], b[j])) {
				continue
			}
			if fr.i.decideV(fr.i.binopV(token.LSS, uintT, a[j], b[j])) {
				return -1
			}
			return 1
		}
		return 0
	})
	reg("(*math/big.Int).Bit", func(fr *frame, args []value) value {
		_, abs := bigAbs(args[0])
		idx := args[1].(int)
		if idx != 0 {
			panic(engineError{"big.Int.Bit(i>0) not modelled"})
		}
		if len(abs) == 0 {
			return uint(0)
		}
		return fr.i.binopV(token.AND, uintT, abs[len(abs)-1], uint(1))
	})
	reg("(*math/big.Int).Uint64", func(fr *frame, args []value) value {
		_, abs := bigAbs(args[0])
		var acc value = uint64(0)
		for _, w := range abs {
			acc = fr.i.binopV(token.OR, types.Typ[types.Uint64], fr.i.binopV(token.SHL, types.Typ[types.Uint64], acc, uint(8)), fr.i.convV(types.Typ[types.Uint64], uintT, w))
		}
		return acc
	})
	reg("math/big.NewInt", func(fr *frame, args []value) value {
		x := args[0].(int64)
		neg := x < 0
		if neg {
			x = -x
		}
		var abs []value
		for x > 0 {
			abs = append([]value{uint(x & 0xff)}, abs...)
			x >>= 8
		}
		cell := value(structure{neg, abs})
		return &cell
	})
	reg("(*math/big.Int).String", func(fr *frame, args []value) value { return "<big.Int>" })
	reg("(*math/big.Int).Text", func(fr *frame, args []value) value { return "<big.Int>" })

	// tokenized/pkg/bitcoin: point decompression is opaque.  The x coordinate
	// is kept; y is a one-byte blob holding the parity prefix so that
	// compressPublicKey (real code: 0x02 + y.Bit(0), x.Bytes()) reproduces a
	// well-formed encoding.  Whether x is on the curve is a fresh
	// nondeterministic input.
	reg("github.com/tokenized/pkg/bitcoin.expandPublicKey", func(fr *frame, args []value) value {
		k := args[0].([]value)
		mkInt := func() *value { c := value(structure{false, []value(nil)}); return &c }
		x, y := mkInt(), mkInt()
		intrinsics["(*math/big.Int).SetBytes"](fr, []value{x, value(k[1:])})
		// curve membership: an uninterpreted predicate of the x coordinate
		var xin *term
		for _, b := range k[1:] {
			bt, _ := fr.i.toTerm(b)
			if xin == nil {
				xin = bt
			} else {
				xin = fr.i.ex.tb.concat2(xin, bt)
			}
		}
		t := fr.i.ex.tb.uf("secp256k1_on_curve", 0, []*term{xin})
		if fr.i.decideV(norm(t, types.Bool)) {
			// parity byte: 2 or 3 -> y blob with that low bit, never zero
			par := fr.i.binopV(token.AND, u8T, k[0], uint8(1))
			yb := fr.i.binopV(token.OR, u8T, par, uint8(2))
			bigSet(y, false, []value{fr.i.convV(uintT, u8T, yb)})
		}
		return tuple{*x, *y}
	})
}

func (ex *pathExec) noteAssumption(s string) {
	for _, a := range ex.res.Assumptions {
		if a == s {
			return
		}
	}
	ex.res.Assumptions = append(ex.res.Assumptions, s)
}
