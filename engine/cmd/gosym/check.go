package main

import (
	"bytes"
	"encoding/json"
	"fmt"
	"go/types"
	"os"
	"os/exec"
	"path/filepath"
	"regexp"
	"sort"
	"strings"
	"time"

	"golang.org/x/tools/go/packages"
	"golang.org/x/tools/go/ssa"
	"golang.org/x/tools/go/ssa/ssautil"

	"verif/engine/interp"
)

type harnessFile struct {
	src     string // path under /verif
	pkgDir  string // relative to /repo
	content []byte
	entries []string
	kits    []string
}

type checkRun struct {
	prop     *Prop
	tier     string
	seed     int64
	only     string
	workers  int
	verbose  bool
	noReplay bool
	trace    bool
	wall     time.Duration

	files    []*harnessFile
	overlay  map[string][]byte // symbolic-mode overlay (path under /repo -> content)
	native   map[string][]byte // native overlay
	tmp      string
	pkgDirs  []string
	reports  []*interp.Report
	loadTime time.Duration
	rewrites []string

	violations   []*checkedViolation
	known        []*knownFinding
	knownHit     map[int]bool
	engineFail   []string
	validated    int
	validateFail []string
	testBins     map[string]string
}

type checkedViolation struct {
	v       *interp.Violation
	cexPath string
	replay  *replayResult
	known   *knownFinding
}

type knownFinding struct {
	property string
	key      string
	text     string
}

var (
	reDirective = regexp.MustCompile(`(?m)^//verif:(\w+)\s+(.*)$`)
	reEntry     = regexp.MustCompile(`(?m)^func (VerifHarness_\w+)\(\)`)
	rePackage   = regexp.MustCompile(`(?m)^package (\w+)`)
)

func (r *checkRun) prepare() error {
	tmp, err := os.MkdirTemp("", "gosym-"+r.prop.ID+"-")
	if err != nil {
		return err
	}
	r.tmp = tmp
	r.overlay = map[string][]byte{}
	r.native = map[string][]byte{}
	ents, err := os.ReadDir(r.prop.Dir)
	if err != nil {
		return err
	}
	pkgSet := map[string]bool{}
	kitsPerPkg := map[string]map[string]bool{}
	for _, e := range ents {
		if !strings.HasSuffix(e.Name(), ".go") {
			continue
		}
		path := filepath.Join(r.prop.Dir, e.Name())
		b, err := os.ReadFile(path)
		if err != nil {
			return err
		}
		hf := &harnessFile{src: path, content: b}
		for _, m := range reDirective.FindAllStringSubmatch(string(b), -1) {
			switch m[1] {
			case "pkg":
				hf.pkgDir = strings.TrimSpace(m[2])
			case "kit":
				hf.kits = append(hf.kits, strings.Fields(m[2])...)
			}
		}
		if hf.pkgDir == "" {
			return fmt.Errorf("%s: missing //verif:pkg directive", path)
		}
		for _, m := range reEntry.FindAllStringSubmatch(string(b), -1) {
			hf.entries = append(hf.entries, m[1])
		}
		r.files = append(r.files, hf)
		pkgSet[hf.pkgDir] = true
		if kitsPerPkg[hf.pkgDir] == nil {
			kitsPerPkg[hf.pkgDir] = map[string]bool{}
		}
		for _, k := range hf.kits {
			kitsPerPkg[hf.pkgDir][k] = true
		}
		name := "zz_verif_" + strings.ToLower(r.prop.ID) + "_" + e.Name()
		r.overlay[filepath.Join(repoRoot, hf.pkgDir, name)] = b
		r.native[filepath.Join(repoRoot, hf.pkgDir, name)] = b
	}
	for d := range pkgSet {
		r.pkgDirs = append(r.pkgDirs, d)
	}
	sort.Strings(r.pkgDirs)
	// kits: copied into each package that asks for them, with the package clause rewritten
	for dir, kits := range kitsPerPkg {
		pkgName, err := packageNameOf(filepath.Join(repoRoot, dir))
		if err != nil {
			return err
		}
		for k := range kits {
			b, err := os.ReadFile(filepath.Join(verifRoot, "kit", k+".go"))
			if err != nil {
				return err
			}
			b = rePackage.ReplaceAll(b, []byte("package "+pkgName))
			p := filepath.Join(repoRoot, dir, "zz_verifkit_"+k+".go")
			r.overlay[p] = b
			r.native[p] = b
		}
	}
	// runtime
	symRT, err := os.ReadFile(filepath.Join(verifRoot, "rt/sym/verifrt.go"))
	if err != nil {
		return err
	}
	r.overlay[filepath.Join(repoRoot, "internal/verifrt/verifrt.go")] = symRT
	nents, _ := os.ReadDir(filepath.Join(verifRoot, "rt/native"))
	for _, e := range nents {
		b, err := os.ReadFile(filepath.Join(verifRoot, "rt/native", e.Name()))
		if err != nil {
			return err
		}
		r.native[filepath.Join(repoRoot, "internal/verifrt", e.Name())] = b
	}
	// source-level constant reductions
	for _, rw := range r.prop.Rewrites {
		applies := len(rw.Tiers) == 0
		for _, t := range rw.Tiers {
			if t == r.tier {
				applies = true
			}
		}
		if !applies {
			continue
		}
		p := filepath.Join(repoRoot, rw.File)
		b, chained := r.overlay[p] // several rewrites of one file apply in order
		if !chained {
			var err error
			b, err = os.ReadFile(p)
			if err != nil {
				return err
			}
		}
		if n := bytes.Count(b, []byte(rw.Old)); n != 1 {
			return fmt.Errorf("rewrite of %s: %q found %d times (want exactly 1); the reduction no longer applies", rw.File, rw.Old, n)
		}
		nb := bytes.Replace(b, []byte(rw.Old), []byte(rw.New), 1)
		r.overlay[p] = nb
		r.native[p] = nb
		r.rewrites = append(r.rewrites, fmt.Sprintf("%s: %q -> %q (%s)", rw.File, rw.Old, rw.New, rw.Why))
	}
	// native time seam
	for _, f := range r.prop.TimeSeam {
		p := filepath.Join(repoRoot, f)
		src, ok := r.native[p]
		if !ok {
			var err error
			src, err = os.ReadFile(p)
			if err != nil {
				return err
			}
		}
		nb, err := rewriteTimeCalls(p, src)
		if err != nil {
			return fmt.Errorf("time seam for %s: %v", f, err)
		}
		r.native[p] = nb
	}
	// generated harnesses
	if gp := filepath.Join(r.prop.Dir, "gen.json"); fileExists(gp) {
		path, content, entries, err := generateRoundTrip(r.overlay, gp)
		if err != nil {
			return fmt.Errorf("harness generator: %v", err)
		}
		r.overlay[path] = content
		r.native[path] = content
		rel, _ := filepath.Rel(repoRoot, filepath.Dir(path))
		r.files = append(r.files, &harnessFile{src: "generated", pkgDir: rel, content: content, entries: entries})
		os.MkdirAll(filepath.Join(verifRoot, "out"), 0o755)
		os.WriteFile(filepath.Join(verifRoot, "out", r.prop.ID+"_generated.go"), content, 0o644)
	}
	return r.buildReplayDrivers()
}

// buildReplayDrivers (re)generates the native test driver of every package from the harness
// entries currently in r.files.
func (r *checkRun) buildReplayDrivers() error {
	byPkg := map[string][]string{}
	for _, hf := range r.files {
		byPkg[hf.pkgDir] = append(byPkg[hf.pkgDir], hf.entries...)
	}
	for dir, entries := range byPkg {
		if len(entries) == 0 {
			continue
		}
		pkgName, err := packageNameOf(filepath.Join(repoRoot, dir))
		if err != nil {
			return err
		}
		var sb strings.Builder
		fmt.Fprintf(&sb, "package %s\n\nimport (\n\t\"testing\"\n\n\t\"github.com/tokenized/spynode/internal/verifrt\"\n)\n\nfunc TestVerifReplay(t *testing.T) {\n", pkgName)
		sort.Strings(entries)
		for _, e := range entries {
			fmt.Fprintf(&sb, "\tverifrt.Replay(t, %q, %s)\n", e, e)
		}
		sb.WriteString("}\n")
		r.native[filepath.Join(repoRoot, dir, "zz_verif_replay_test.go")] = []byte(sb.String())
	}
	return nil
}

func fileExists(p string) bool {
	_, err := os.Stat(p)
	return err == nil
}

func packageNameOf(dir string) (string, error) {
	ents, err := os.ReadDir(dir)
	if err != nil {
		return "", err
	}
	for _, e := range ents {
		if strings.HasSuffix(e.Name(), ".go") && !strings.HasSuffix(e.Name(), "_test.go") {
			b, err := os.ReadFile(filepath.Join(dir, e.Name()))
			if err != nil {
				return "", err
			}
			if m := rePackage.FindSubmatch(b); m != nil {
				return string(m[1]), nil
			}
		}
	}
	return "", fmt.Errorf("no package clause found in %s", dir)
}

func (r *checkRun) cleanup() {
	if r.tmp != "" {
		os.RemoveAll(r.tmp)
	}
}

// dropBrokenHarnesses removes the harness files named in the type errors of err (if every error is
// in a harness file of this property) and records them as engine failures.
func (r *checkRun) dropBrokenHarnesses(err error) bool {
	prefix := "zz_verif_" + strings.ToLower(r.prop.ID) + "_"
	bad := map[string]bool{}
	for _, line := range strings.Split(err.Error(), "\n")[1:] {
		line = strings.TrimSpace(line)
		if line == "" || strings.HasPrefix(line, "have ") || strings.HasPrefix(line, "want ") {
			continue
		}
		j := strings.Index(line, prefix)
		if j < 0 {
			return false // an error outside the harness files: nothing can run
		}
		name := line[j+len(prefix):]
		if k := strings.Index(name, ".go"); k >= 0 {
			name = name[:k+3]
		}
		bad[name] = true
	}
	if len(bad) == 0 {
		return false
	}
	var kept []*harnessFile
	dropped := 0
	for _, hf := range r.files {
		base := filepath.Base(hf.src)
		if hf.src != "generated" && bad[base] {
			virt := filepath.Join(repoRoot, hf.pkgDir, prefix+base)
			delete(r.overlay, virt)
			delete(r.native, virt)
			r.engineFail = append(r.engineFail, fmt.Sprintf("harness file %s does not compile against the current tree and was left out: %s", base, firstLines(err.Error(), 4)))
			dropped++
			continue
		}
		kept = append(kept, hf)
	}
	if dropped == 0 || len(kept) == 0 {
		return false
	}
	r.files = kept
	return r.buildReplayDrivers() == nil
}

func firstLines(s string, n int) string {
	parts := strings.Split(s, "\n")
	if len(parts) > n {
		parts = parts[:n]
	}
	return strings.Join(parts, " | ")
}

func (r *checkRun) loadProgram() (*ssa.Program, map[string]*ssa.Package, error) {
	t0 := time.Now()
	cfg := &packages.Config{
		Mode:    packages.LoadAllSyntax,
		Dir:     repoRoot,
		Overlay: r.overlay,
		Env:     append(os.Environ(), "GOFLAGS=-mod=mod", "GOPROXY=off", "GOSUMDB=off", "GOTOOLCHAIN=local"),
	}
	var patterns []string
	for _, d := range r.pkgDirs {
		patterns = append(patterns, "./"+d)
	}
	pkgs, err := packages.Load(cfg, patterns...)
	if err != nil {
		return nil, nil, err
	}
	var errs []string
	packages.Visit(pkgs, nil, func(p *packages.Package) {
		for _, e := range p.Errors {
			errs = append(errs, e.Error())
		}
	})
	if len(errs) > 0 {
		if len(errs) > 20 {
			errs = errs[:20]
		}
		return nil, nil, fmt.Errorf("type errors in /repo or harness:\n  %s", strings.Join(errs, "\n  "))
	}
	prog, spkgs := ssautil.AllPackages(pkgs, ssa.InstantiateGenerics)
	prog.Build()
	out := map[string]*ssa.Package{}
	for i, p := range pkgs {
		rel := strings.TrimPrefix(p.PkgPath, "github.com/tokenized/spynode/")
		out[rel] = spkgs[i]
	}
	r.loadTime = time.Since(t0)
	return prog, out, nil
}

func (r *checkRun) run() int {
	if err := r.prepare(); err != nil {
		fatal(err)
	}
	defer r.cleanup()
	if err := r.loadKnown(); err != nil {
		fatal(err)
	}
	prog, spkgs, err := r.loadProgram()
	if err != nil && r.dropBrokenHarnesses(err) {
		// a harness file no longer compiles against the current tree (e.g. an internal signature
		// changed): the others still run; the property stays inconclusive unless one of them
		// reports a violation
		prog, spkgs, err = r.loadProgram()
	}
	if err != nil {
		fmt.Fprintln(os.Stderr, "gosym:", err)
		return 2
	}
	if r.verbose {
		fmt.Fprintf(os.Stderr, "loaded and built SSA in %v\n", r.loadTime)
	}
	thorough := r.tier == "thorough"
	interp.SetTier(thorough)
	timeout := 0
	if r.prop.TimeoutS != nil {
		timeout = r.prop.TimeoutS[r.tier]
	}
	var deadline time.Time
	if timeout > 0 {
		deadline = time.Now().Add(time.Duration(timeout) * time.Second)
	}
	for _, hf := range r.files {
		sp := spkgs[hf.pkgDir]
		if sp == nil {
			fatal(fmt.Errorf("package %s not loaded", hf.pkgDir))
		}
		for _, entry := range hf.entries {
			if r.only != "" {
				if strings.HasPrefix(r.only, "VerifHarness_") {
					if entry != r.only {
						continue
					}
				} else if !strings.Contains(entry, r.only) {
					continue
				}
			}
			fn := sp.Func(entry)
			if fn == nil {
				fatal(fmt.Errorf("harness %s not found in %s", entry, hf.pkgDir))
			}
			cfg := interp.DefaultConfig()
			cfg.Workers = 14
			if r.prop.Workers > 0 {
				cfg.Workers = r.prop.Workers
			}
			if r.workers > 0 {
				cfg.Workers = r.workers
			}
			if r.prop.StepBudget > 0 {
				cfg.StepBudget = r.prop.StepBudget
			}
			if r.prop.MaxSymLen > 0 {
				cfg.MaxSymLen = r.prop.MaxSymLen
			}
			cfg.SolverTimeoutMs = 30000 // every query of the registered tiers answers within 10 s on a free machine; the margin is for a loaded one
			if thorough {
				cfg.SolverTimeoutMs = 60000
			}
			if v, ok := r.prop.SolverTimeoutMs[r.tier]; ok {
				cfg.SolverTimeoutMs = v
			}
			cfg.CrossCheck = thorough && os.Getenv("VERIF_NO_CROSSCHECK") == ""
			cfg.Seed = r.seed
			cfg.Verbose = r.verbose
			cfg.Deadline = deadline
			cfg.TracePath = r.trace
			ex := &interp.Explorer{Prog: prog, Fn: fn, Cfg: cfg, Harness: entry}
			rep := ex.Run()
			r.reports = append(r.reports, rep)
			if r.verbose || true {
				fmt.Fprintf(os.Stderr, "[%s] %s: paths=%d %v decisions=%d obligations=%d (solver %d, unsat %d) unknown=%d violations=%d distinct=%d queries=%d wall=%.1fs\n",
					r.prop.ID, entry, rep.Paths, rep.PathsByStatus, rep.Decisions, rep.Obligations, rep.OblsSolver, rep.OblsUnsat, rep.Unknown, rep.ViolationCount, len(rep.Violations), rep.Solver.Queries, rep.Wall.Seconds())
			}
			for _, e := range rep.EngineErrors {
				r.engineFail = append(r.engineFail, e)
			}
			if rep.Incomplete != "" {
				r.engineFail = append(r.engineFail, entry+": exploration incomplete: "+rep.Incomplete)
			}
			if rep.Unknown > 0 {
				r.engineFail = append(r.engineFail, fmt.Sprintf("%s: %d inconclusive solver answers (bound too large for the time-out)", entry, rep.Unknown))
			}
			if rep.PathsByStatus["step-budget"] > 0 {
				r.engineFail = append(r.engineFail, fmt.Sprintf("%s: %d paths exceeded the step budget (unwinding bound)", entry, rep.PathsByStatus["step-budget"]))
			}
			if rep.PathsByStatus["done"] == 0 && len(rep.EngineErrors) == 0 {
				r.engineFail = append(r.engineFail, entry+": vacuous harness: no path reaches its end")
			}
		}
	}
	// vacuity: required reach markers
	reached := map[string]int{}
	for _, rep := range r.reports {
		for k, v := range rep.Reached {
			reached[k] += v
		}
	}
	if r.only == "" {
		for _, m := range r.prop.RequireReach {
			if reached[m] == 0 {
				r.engineFail = append(r.engineFail, "vacuous: reach marker never hit: "+m)
			}
		}
	}
	// replay violations natively
	r.knownHit = map[int]bool{}
	n := 0
	for _, rep := range r.reports {
		for _, v := range rep.Violations {
			n++
			cv := &checkedViolation{v: v}
			r.violations = append(r.violations, cv)
			c := &cexFile{Property: r.prop.ID, Harness: v.Harness, Label: v.Label, Sig: v.Sig, Detail: v.Detail, Where: v.Where, Model: v.Model, Thorough: thorough, Notes: v.Notes}
			dir := filepath.Join(verifRoot, "out", "cex")
			os.MkdirAll(dir, 0o755)
			cv.cexPath = filepath.Join(dir, fmt.Sprintf("%s-%s-%d.json", r.prop.ID, r.tier, n))
			b, _ := json.MarshalIndent(c, "", " ")
			if err := os.WriteFile(cv.cexPath, b, 0o644); err != nil {
				fatal(err)
			}
			if r.noReplay {
				continue
			}
			out, res, err := r.replayNative(c)
			if err != nil {
				r.engineFail = append(r.engineFail, fmt.Sprintf("replay of %s failed to run: %v\n%s", v.Key(), err, out))
				continue
			}
			cv.replay = res
			// a schedule-dependent harness may reproduce the violation on another path's model
			for _, alt := range v.Alt {
				if res == nil || res.Result == "violated" || res.Result == "panic" {
					break
				}
				c2 := *c
				c2.Model = alt
				_, res2, err2 := r.replayNative(&c2)
				if err2 == nil && res2 != nil && (res2.Result == "violated" || res2.Result == "panic") {
					b2, _ := json.MarshalIndent(&c2, "", " ")
					os.WriteFile(cv.cexPath, b2, 0o644)
					cv.replay, res = res2, res2
				}
			}
		}
	}
	// translator validation: replay sample path models natively, compare observations
	if !r.noReplay && len(r.engineFail) == 0 {
		r.validateSamples(thorough)
	}
	code := 0
	for _, cv := range r.violations {
		if r.noReplay {
			fmt.Printf("UNREPLAYED property=%s harness=%s label=%s sig=%q cex=%s\n", r.prop.ID, cv.v.Harness, cv.v.Label, cv.v.Sig, cv.cexPath)
			code = 2
			continue
		}
		if cv.replay == nil {
			continue
		}
		reproduced := false
		switch {
		case cv.v.Label == "no-panic":
			reproduced = cv.replay.Result == "panic"
		default:
			reproduced = cv.replay.Result == "violated" && cv.replay.Label == cv.v.Label
			// a native crash (fatal error, uncaught panic) reproduces any no-panic / allocation obligation
			if cv.replay.Result == "panic" && (strings.HasSuffix(cv.v.Label, "no-panic") || strings.Contains(cv.v.Label, "alloc")) {
				reproduced = true
			}
		}
		if !reproduced {
			r.engineFail = append(r.engineFail, fmt.Sprintf("ENGINE-MISMATCH: %s %s|%s not reproduced natively (native result=%s label=%s detail=%s) cex=%s",
				cv.v.Harness, cv.v.Label, cv.v.Sig, cv.replay.Result, cv.replay.Label, cv.replay.Detail, cv.cexPath))
			continue
		}
		if k := r.matchKnown(cv.v); k != nil {
			cv.known = k
			continue
		}
		fmt.Printf("VIOLATION property=%s replay=%s\n", r.prop.ID, cv.cexPath)
		fmt.Printf("  harness=%s label=%s sig=%q detail=%s\n", cv.v.Harness, cv.v.Label, cv.v.Sig, cv.v.Detail)
		for _, nt := range cv.v.Notes {
			fmt.Printf("  note: %s\n", nt)
		}
		code = 1
	}
	// known findings: printed once each
	printed := map[string]bool{}
	for _, cv := range r.violations {
		if cv.known != nil && !printed[cv.known.key] {
			printed[cv.known.key] = true
			fmt.Printf("KNOWN-FINDING: property=%s %s\n", r.prop.ID, cv.known.text)
		}
	}
	if len(r.engineFail) > 0 {
		for _, e := range r.engineFail {
			fmt.Fprintln(os.Stderr, "ENGINE-FAILURE:", e)
		}
		if code == 0 {
			code = 2
		}
	}
	return code
}

func (r *checkRun) loadKnown() error {
	b, err := os.ReadFile(filepath.Join(verifRoot, "KNOWN_FINDINGS.txt"))
	if err != nil {
		if os.IsNotExist(err) {
			return nil
		}
		return err
	}
	re := regexp.MustCompile(`^known:\s+property=(\S+)\s+key=(\S+)\s+(.*)$`)
	for _, line := range strings.Split(string(b), "\n") {
		line = strings.TrimSpace(line)
		if m := re.FindStringSubmatch(line); m != nil {
			r.known = append(r.known, &knownFinding{property: m[1], key: m[2], text: m[3]})
		}
	}
	return nil
}

// matchKnown: a known finding is identified by "<harness>:<label>|<sig>" with
// spaces in sig written as '_' ; '*' at the end of the key matches any suffix,
// and "*:" instead of the harness name matches any harness of the property
// (for a call site that several harnesses reach).
func (r *checkRun) matchKnown(v *interp.Violation) *knownFinding {
	rest := v.Label + "|" + strings.ReplaceAll(v.Sig, " ", "_")
	key := v.Harness + ":" + rest
	for _, k := range r.known {
		if k.property != r.prop.ID {
			continue
		}
		want, have := k.key, key
		if strings.HasPrefix(want, "*:") {
			want, have = strings.TrimPrefix(want, "*:"), rest
		}
		if want == have {
			return k
		}
		if strings.HasSuffix(want, "*") && strings.HasPrefix(have, strings.TrimSuffix(want, "*")) {
			return k
		}
	}
	return nil
}

type replayResult struct {
	Result   string
	Label    string
	Sig      string
	Detail   string
	Observed []string
	Notes    []string
}

var reReplayLine = regexp.MustCompile(`VERIF-REPLAY harness=(\S+) result=(\S+) label="((?:[^"\\]|\\.)*)" sig="((?:[^"\\]|\\.)*)" detail="((?:[^"\\]|\\.)*)"`)

func (r *checkRun) pkgOfHarness(h string) string {
	for _, hf := range r.files {
		for _, e := range hf.entries {
			if e == h {
				return hf.pkgDir
			}
		}
	}
	return ""
}

// testBinary builds (once) the native replay test binary of a package.
func (r *checkRun) testBinary(pkgDir string) (string, string, error) {
	if r.testBins == nil {
		r.testBins = map[string]string{}
	}
	if b, ok := r.testBins[pkgDir]; ok {
		return b, "", nil
	}
	// materialise overlay files
	rep := map[string]string{}
	i := 0
	for virt, content := range r.native {
		i++
		real := filepath.Join(r.tmp, fmt.Sprintf("ov%d_%s", i, filepath.Base(virt)))
		if err := os.WriteFile(real, content, 0o644); err != nil {
			return "", "", err
		}
		rep[virt] = real
	}
	ob, _ := json.Marshal(map[string]interface{}{"Replace": rep})
	ovPath := filepath.Join(r.tmp, "overlay.json")
	if err := os.WriteFile(ovPath, ob, 0o644); err != nil {
		return "", "", err
	}
	bin := filepath.Join(r.tmp, "replay_"+strings.ReplaceAll(pkgDir, "/", "_")+".test")
	cmd := exec.Command("go", "test", "-c", "-vet=off", "-overlay", ovPath, "-o", bin, "./"+pkgDir)
	cmd.Dir = repoRoot
	cmd.Env = append(os.Environ(), "GOFLAGS=-mod=mod", "GOPROXY=off", "GOSUMDB=off", "GOTOOLCHAIN=local")
	out, err := cmd.CombinedOutput()
	if err != nil {
		return "", string(out), fmt.Errorf("building replay binary: %v", err)
	}
	r.testBins[pkgDir] = bin
	return bin, string(out), nil
}

func (r *checkRun) replayNative(c *cexFile) (string, *replayResult, error) {
	pkgDir := r.pkgOfHarness(c.Harness)
	if pkgDir == "" {
		return "", nil, fmt.Errorf("harness %s not found", c.Harness)
	}
	bin, out, err := r.testBinary(pkgDir)
	if err != nil {
		return out, nil, err
	}
	cb, _ := json.Marshal(c)
	cexPath := filepath.Join(r.tmp, fmt.Sprintf("cex_%d.json", time.Now().UnixNano()))
	if err := os.WriteFile(cexPath, cb, 0o644); err != nil {
		return "", nil, err
	}
	defer os.Remove(cexPath)
	replayTimeout := "120"
	targs := []string{}
	if v := os.Getenv("GOSYM_REPLAY_TIMEOUT"); v != "" { // debugging aid: shorter deadline, goroutine dump on expiry
		replayTimeout = v
		targs = append(targs, "-s", "QUIT")
	}
	targs = append(targs, replayTimeout, bin, "-test.run", "^TestVerifReplay$", "-test.v", "-test.count=1")
	cmd := exec.Command("timeout", targs...)
	cmd.Dir = filepath.Join(repoRoot, pkgDir)
	cmd.Env = append(os.Environ(), "VERIF_CEX="+cexPath)
	// memory cap for hostile-allocation replays
	ob, err := cmd.CombinedOutput()
	outS := string(ob)
	res := &replayResult{}
	for _, line := range strings.Split(outS, "\n") {
		if m := reReplayLine.FindStringSubmatch(line); m != nil && m[1] == c.Harness {
			res.Result, res.Label, res.Sig, res.Detail = m[2], unq(m[3]), unq(m[4]), unq(m[5])
		}
		if strings.HasPrefix(line, "VERIF-OBSERVE ") {
			res.Observed = append(res.Observed, strings.TrimPrefix(line, "VERIF-OBSERVE "))
		}
		if strings.HasPrefix(line, "VERIF-NOTE ") {
			res.Notes = append(res.Notes, strings.TrimPrefix(line, "VERIF-NOTE "))
		}
	}
	if res.Result == "" {
		// the process died (fatal error, OOM kill, timeout): counts as a crash
		if err != nil {
			res.Result = "panic"
			res.Detail = "process died: " + lastLines(outS, 3)
			return outS, res, nil
		}
		return outS, nil, fmt.Errorf("no VERIF-REPLAY line in output")
	}
	return outS, res, nil
}

func unq(s string) string {
	if u, err := strconvUnquote(`"` + s + `"`); err == nil {
		return u
	}
	return s
}

func lastLines(s string, n int) string {
	lines := strings.Split(strings.TrimSpace(s), "\n")
	if len(lines) > n {
		lines = lines[len(lines)-n:]
	}
	return strings.Join(lines, " / ")
}

// validateSamples replays sample path models natively and compares the
// harness observations with those of the engine (translator validation).
func (r *checkRun) validateSamples(thorough bool) {
	for _, rep := range r.reports {
		limit := 2
		if thorough {
			limit = 6
		}
		for idx, m := range rep.Samples {
			if idx >= limit {
				break
			}
			c := &cexFile{Property: r.prop.ID, Harness: rep.Harness, Model: m.Model, Thorough: thorough}
			out, res, err := r.replayNative(c)
			if err != nil {
				r.engineFail = append(r.engineFail, fmt.Sprintf("validation replay failed to run for %s: %v\n%s", rep.Harness, err, lastLines(out, 15)))
				return
			}
			want := m.Status
			got := res.Result
			ok := false
			switch want {
			case "done":
				ok = got == "pass"
			case "assume-false":
				ok = got == "assume-false"
			case "violated":
				ok = got == "violated" || got == "panic"
			default:
				ok = true // cut paths etc.: nothing to compare
			}
			if ok && want == "done" {
				if strings.Join(m.Observed, "\n") != strings.Join(res.Observed, "\n") {
					ok = false
					got += " (observations differ: engine=" + strings.Join(m.Observed, ";") + " native=" + strings.Join(res.Observed, ";") + ")"
				}
			}
			if !ok {
				r.validateFail = append(r.validateFail, fmt.Sprintf("%s sample %d: engine=%s native=%s label=%s detail=%s", rep.Harness, idx, want, got, res.Label, res.Detail))
				r.engineFail = append(r.engineFail, "TRANSLATION-MISMATCH: "+r.validateFail[len(r.validateFail)-1])
			} else {
				r.validated++
			}
		}
	}
}

var _ = types.Typ
