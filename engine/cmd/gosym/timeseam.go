package main

import (
	"bytes"
	"fmt"
	"go/ast"
	"go/format"
	"go/parser"
	"go/token"
	"strconv"
)

// rewriteTimeCalls redirects time.Now/Since/Sleep/After in a copy of a repo
// file to the native verifrt clock, so that the virtual clock of a solver
// model can be imposed on the natively compiled code during replay.  The
// copy is regenerated from the current file on every run.
func rewriteTimeCalls(path string, src []byte) ([]byte, error) {
	fset := token.NewFileSet()
	f, err := parser.ParseFile(fset, path, src, parser.ParseComments)
	if err != nil {
		return nil, err
	}
	n := 0
	ast.Inspect(f, func(nd ast.Node) bool {
		sel, ok := nd.(*ast.SelectorExpr)
		if !ok {
			return true
		}
		id, ok := sel.X.(*ast.Ident)
		if !ok || id.Name != "time" || id.Obj != nil {
			return true
		}
		switch sel.Sel.Name {
		case "Now", "Since", "Sleep", "After":
			id.Name = "verifrt"
			n++
		}
		return true
	})
	if n == 0 {
		return nil, fmt.Errorf("no time.Now/Since/Sleep/After call found")
	}
	// add the import
	imp := &ast.ImportSpec{Path: &ast.BasicLit{Kind: token.STRING, Value: strconv.Quote("github.com/tokenized/spynode/internal/verifrt")}}
	added := false
	for _, d := range f.Decls {
		if gd, ok := d.(*ast.GenDecl); ok && gd.Tok == token.IMPORT {
			gd.Specs = append(gd.Specs, imp)
			if !gd.Lparen.IsValid() {
				gd.Lparen = gd.Pos()
				gd.Rparen = gd.End()
			}
			added = true
			break
		}
	}
	if !added {
		return nil, fmt.Errorf("no import declaration")
	}
	f.Imports = append(f.Imports, imp)
	// "time" may have become unused: keep it referenced
	var buf bytes.Buffer
	if err := format.Node(&buf, fset, f); err != nil {
		return nil, err
	}
	buf.WriteString("\nvar _ = time.Second // keep the import used after the seam rewrite\n")
	return buf.Bytes(), nil
}
