package main

import (
	"encoding/json"
	"fmt"
	"os"
	"path/filepath"
	"sort"
	"strconv"
	"strings"
)

func strconvUnquote(s string) (string, error) { return strconv.Unquote(s) }

func (r *checkRun) writeEvidence() error {
	type harnessEv struct {
		Name          string         `json:"name"`
		Paths         int            `json:"paths"`
		PathsByStatus map[string]int `json:"paths_by_status"`
		Decisions     int            `json:"symbolic_decisions"`
		Obligations   int            `json:"assertion_obligations"`
		BySolver      int            `json:"obligations_decided_by_solver"`
		Unsat         int            `json:"obligations_discharged_unsat"`
		Unknown       int            `json:"inconclusive"`
		Violations    int            `json:"violating_paths"`
		Queries       int            `json:"solver_queries"`
		SolverS       float64        `json:"solver_seconds"`
		FallbackS     float64        `json:"fallback_solver_seconds"`
		Backends      map[string]int `json:"answers_by_backend"`
		CrossChecks   int            `json:"cross_checked_with_cvc5"`
		Steps         int64          `json:"ssa_instructions_interpreted"`
		WallS         float64        `json:"wall_s"`
		Reached       map[string]int `json:"reach_markers_hit"`
		Cuts          map[string]int `json:"cuts,omitempty"`
		EndReached    int            `json:"paths_reaching_harness_end"`
	}
	var hs []harnessEv
	funcs := map[string]int64{}
	totalPaths, totalDec, totalObl, totalUnsat, totalBySolver, totalQueries := 0, 0, 0, 0, 0, 0
	var solverS float64
	var samples []interface{}
	distinct := 0
	for _, rep := range r.reports {
		hs = append(hs, harnessEv{
			Name: rep.Harness, Paths: rep.Paths, PathsByStatus: rep.PathsByStatus, Decisions: rep.Decisions,
			Obligations: rep.Obligations, BySolver: rep.OblsSolver, Unsat: rep.OblsUnsat, Unknown: rep.Unknown,
			Violations: rep.ViolationCount, Queries: rep.Solver.Queries, SolverS: rep.Solver.Z3Time.Seconds(),
			FallbackS: rep.Solver.FallbackT.Seconds(), Backends: rep.Solver.ByBackend, CrossChecks: rep.Solver.CrossChecks,
			Steps: rep.Steps, WallS: rep.Wall.Seconds(), Reached: rep.Reached, Cuts: rep.Cuts,
			EndReached: rep.PathsByStatus["done"],
		})
		totalPaths += rep.Paths
		totalDec += rep.Decisions + rep.Chooses
		totalObl += rep.Obligations
		totalUnsat += rep.OblsUnsat
		totalBySolver += rep.OblsSolver
		totalQueries += rep.Solver.Queries
		solverS += rep.Solver.Z3Time.Seconds() + rep.Solver.FallbackT.Seconds()
		distinct += rep.PathsByStatus["done"]
		for f, n := range rep.Funcs {
			funcs[f] += n
		}
		for i, s := range rep.Samples {
			if i >= 3 {
				break
			}
			samples = append(samples, map[string]interface{}{"harness": rep.Harness, "path_inputs": s.Model, "status": s.Status, "observed": s.Observed})
		}
	}
	// functions encoded: repo + dependency functions executed symbolically
	type fe struct {
		Name  string `json:"name"`
		Instr int64  `json:"instructions"`
	}
	var repoFuncs, depFuncs []fe
	for f, n := range funcs {
		switch {
		case strings.Contains(f, "VerifHarness_") || strings.Contains(f, "verifrt") || strings.Contains(f, "vk"):
		case strings.Contains(f, "github.com/tokenized/spynode"):
			repoFuncs = append(repoFuncs, fe{f, n})
		default:
			depFuncs = append(depFuncs, fe{f, n})
		}
	}
	sort.Slice(repoFuncs, func(a, b int) bool { return repoFuncs[a].Name < repoFuncs[b].Name })
	sort.Slice(depFuncs, func(a, b int) bool { return depFuncs[a].Instr > depFuncs[b].Instr })
	if len(depFuncs) > 40 {
		depFuncs = depFuncs[:40]
	}
	var viol []interface{}
	nViol := 0
	for _, cv := range r.violations {
		st := "unreplayed"
		if cv.replay != nil {
			st = "native:" + cv.replay.Result
		}
		kn := ""
		if cv.known != nil {
			kn = cv.known.key
		} else if cv.replay != nil {
			nViol++
		}
		viol = append(viol, map[string]interface{}{"harness": cv.v.Harness, "label": cv.v.Label, "sig": cv.v.Sig, "model": cv.v.Model, "replay": st, "known_finding": kn, "notes": cv.v.Notes})
	}
	if len(samples) == 0 {
		samples = append(samples, "no path produced a sample (see engine_failures)")
	}
	bounds := r.prop.Bounds[r.tier]
	cov := map[string]interface{}{
		"explanation": r.prop.Explanation + "  Deciding step: every branch on a symbolic value and every assertion is a solver query over all values of the declared inputs (z3 4.8.12, fallback cvc5/z3-new); unsat = holds for every input within the bounds below, sat = concrete model replayed against the natively compiled tree before it is reported.",
		"technique":   "bounded symbolic execution of go/ssa of the real code + SMT (QF_UFBV)",
		"bounds":      bounds,
		"outside_bounds": r.prop.Outside,
		"source_reductions": r.rewrites,
		"harnesses":   hs,
		"functions_encoded_repo":        repoFuncs,
		"functions_encoded_dependencies_top": depFuncs,
		"evaluations":          totalPaths,
		"distinct_nontrivial":  distinct,
		"rule":                 "evaluations = feasible symbolic paths explored (each stands for every input satisfying its path condition); distinct_nontrivial = paths that ran the harness to its end (pairwise different path conditions by construction of the decision tree)",
		"states":               totalPaths,
		"transitions":          totalDec,
		"traces_validated_against_impl": r.validated,
		"obligations":          totalObl,
		"discharged":           totalObl - nViolPaths(r),
		"obligations_decided_by_solver": totalBySolver,
		"obligations_unsat":    totalUnsat,
		"solver_queries":       totalQueries,
		"solver_seconds":       solverS,
		"ssa_load_build_seconds": r.loadTime.Seconds(),
		"samples":              samples,
		"violations_detail":    viol,
		"engine_failures":      append([]string{}, r.engineFail...),
		"exhaustive":           len(r.engineFail) == 0,
		"replays_attempted":    len(r.violations),
		"checker_cmd":          fmt.Sprintf("./check %s %s", r.prop.ID, r.tier),
		"trusted_base":         []string{"go/ssa lowering (x/tools v0.29.0)", "gosym interpreter and term simplifier", "z3 4.8.12 / cvc5 1.0 / z3 5.1", "stubs and intrinsics listed in assumptions"},
	}
	assumptions := append([]string{}, r.prop.Assumptions...)
	seenA := map[string]bool{}
	for _, rep := range r.reports {
		for a := range rep.Assumptions {
			if !seenA[a] {
				seenA[a] = true
				assumptions = append(assumptions, "engine: "+a)
			}
		}
	}
	ev := map[string]interface{}{
		"property_id": r.prop.ID,
		"tier":        r.tier,
		"seed":        r.seed,
		"level":       r.prop.Level,
		"coverage":    cov,
		"assumptions": assumptions,
		"wall_s":      r.wall.Seconds(),
		"violations":  nViol,
	}
	b, err := json.MarshalIndent(ev, "", " ")
	if err != nil {
		return err
	}
	dir := filepath.Join(verifRoot, "evidence")
	os.MkdirAll(dir, 0o755)
	return os.WriteFile(filepath.Join(dir, r.prop.ID+".json"), b, 0o644)
}

func nViolPaths(r *checkRun) int {
	n := 0
	for _, rep := range r.reports {
		n += rep.ViolationCount
	}
	return n
}

func (r *checkRun) printSummary(code int) {
	status := map[int]string{0: "HELD (within bounds)", 1: "VIOLATION", 2: "ENGINE FAILURE / INCONCLUSIVE"}[code]
	paths := 0
	for _, rep := range r.reports {
		paths += rep.Paths
	}
	fmt.Printf("gosym: property=%s tier=%s harnesses=%d paths=%d validated_traces=%d wall=%.1fs => %s\n",
		r.prop.ID, r.tier, len(r.reports), paths, r.validated, r.wall.Seconds(), status)
}
