package main

// Harness generator for C15: from the go/types of the current /repo tree it
// emits, for every client message payload type, a function that fills a
// value with symbolic scalars / case-split lengths, a structural equality
// function, and the round-trip harness itself.  Regenerated on every check, so
// a changed struct changes the harness.

import (
	"encoding/json"
	"fmt"
	"go/types"
	"os"
	"path/filepath"
	"sort"
	"strings"

	"golang.org/x/tools/go/packages"
)

type genConfig struct {
	Package          string   `json:"package"` // dir relative to /repo
	Exclude          []string `json:"exclude"`
	OptionalPointers []string `json:"optional_pointers"` // "Type.Field"
	Roots            []string `json:"roots"`             // extra root types (non-message), e.g. "Tx"
}

type generator struct {
	cfg     genConfig
	pkg     *types.Package
	imports map[string]string // path -> alias
	fills   map[string]string // type string -> func name
	eqs     map[string]string
	out     strings.Builder
	n       int
	opt     map[string]bool
	skipped []string
}

func (g *generator) qual(p *types.Package) string {
	if p == g.pkg {
		return ""
	}
	if a, ok := g.imports[p.Path()]; ok {
		return a
	}
	a := p.Name()
	// avoid clashes
	for _, v := range g.imports {
		if v == a {
			a = a + fmt.Sprint(len(g.imports))
		}
	}
	g.imports[p.Path()] = a
	return a
}

func (g *generator) ts(t types.Type) string { return types.TypeString(t, g.qual) }

type unsupported struct{ why string }

func isByte(t types.Type) bool {
	b, ok := t.Underlying().(*types.Basic)
	return ok && b.Kind() == types.Uint8
}

func namedIs(t types.Type, path, name string) bool {
	n, ok := t.(*types.Named)
	if !ok || n.Obj().Pkg() == nil {
		return false
	}
	return n.Obj().Pkg().Path() == path && n.Obj().Name() == name
}

const bitcoinPath = "github.com/tokenized/pkg/bitcoin"

// fillFunc returns the name of the generated func fillN(p *T, name string).
func (g *generator) fillFunc(t types.Type) string {
	key := g.ts(t)
	if f, ok := g.fills[key]; ok {
		return f
	}
	g.n++
	name := fmt.Sprintf("c15fill%d", g.n)
	g.fills[key] = name
	var b strings.Builder
	fmt.Fprintf(&b, "// fill %s\nfunc %s(p *%s, name string) {\n", key, name, key)
	switch {
	case namedIs(t, bitcoinPath, "PublicKey"):
		b.WriteString("\tc15FillPublicKey(p, name)\n")
	case namedIs(t, bitcoinPath, "Signature"):
		b.WriteString("\tc15FillSignature(p, name)\n")
	default:
		g.fillBody(&b, t, "(*p)", "name", "")
	}
	b.WriteString("}\n\n")
	g.out.WriteString(b.String())
	return name
}

func (g *generator) fillBody(b *strings.Builder, t types.Type, lv, name, owner string) {
	switch u := t.Underlying().(type) {
	case *types.Basic:
		var call string
		switch u.Kind() {
		case types.Bool:
			call = "c15Bool(%s)"
		case types.Uint8:
			call = "c15U8(%s)"
		case types.Uint16:
			call = "c15U16(%s)"
		case types.Uint32:
			call = "c15U32(%s)"
		case types.Uint64:
			call = "c15U64(%s)"
		case types.Int32:
			call = "c15I32(%s)"
		case types.Int64:
			call = "c15I64(%s)"
		case types.Int:
			call = "c15Int(%s)"
		case types.Int8:
			call = "int8(c15U8(%s))"
		case types.Int16:
			call = "int16(c15U16(%s))"
		case types.Uint:
			call = "uint(c15U64(%s))"
		case types.String:
			fmt.Fprintf(b, "\t%s = %s(c15Bytes(%s, c15BytesLen(%s)))\n", lv, g.ts(t), name, name)
			return
		default:
			panic(unsupported{"basic kind " + u.String()})
		}
		fmt.Fprintf(b, "\t%s = %s(%s)\n", lv, g.ts(t), fmt.Sprintf(call, name))
	case *types.Array:
		if isByte(u.Elem()) {
			fmt.Fprintf(b, "\tcopy(%s[:], c15Bytes(%s, %d))\n", lv, name, u.Len())
			return
		}
		f := g.fillFunc(u.Elem())
		fmt.Fprintf(b, "\tfor i := range %s {\n\t\t%s(&%s[i], name+\"[\"+c15Itoa(i)+\"]\")\n\t}\n", lv, f, lv)
	case *types.Slice:
		if isByte(u.Elem()) {
			fmt.Fprintf(b, "\t%s = %s(c15Bytes(%s, c15BytesLen(%s)))\n", lv, g.ts(t), name, name)
			return
		}
		fmt.Fprintf(b, "\t{\n\t\tn := c15ListLen(%s)\n\t\t%s = make(%s, n)\n\t\tfor i := 0; i < n; i++ {\n", name, lv, g.ts(t))
		if pt, ok := u.Elem().Underlying().(*types.Pointer); ok {
			f := g.fillFunc(pt.Elem())
			fmt.Fprintf(b, "\t\t\t%s[i] = new(%s)\n\t\t\t%s(%s[i], %s+\"[\"+c15Itoa(i)+\"]\")\n", lv, g.ts(pt.Elem()), f, lv, name)
		} else {
			f := g.fillFunc(u.Elem())
			fmt.Fprintf(b, "\t\t\t%s(&%s[i], %s+\"[\"+c15Itoa(i)+\"]\")\n", f, lv, name)
		}
		b.WriteString("\t\t}\n\t}\n")
	case *types.Pointer:
		f := g.fillFunc(u.Elem())
		if g.opt[owner] {
			fmt.Fprintf(b, "\tif verifrt.Choose(%s+\".present\", 2) == 1 {\n\t\t%s = new(%s)\n\t\t%s(%s, %s)\n\t}\n", name, lv, g.ts(u.Elem()), f, lv, name)
		} else {
			fmt.Fprintf(b, "\t%s = new(%s)\n\t%s(%s, %s)\n", lv, g.ts(u.Elem()), f, lv, name)
		}
	case *types.Struct:
		tn := ""
		if n, ok := t.(*types.Named); ok {
			tn = n.Obj().Name()
		}
		for i := 0; i < u.NumFields(); i++ {
			fld := u.Field(i)
			if !fld.Exported() && fld.Pkg() != g.pkg {
				panic(unsupported{"unexported field " + fld.Name() + " of " + g.ts(t)})
			}
			fname := fmt.Sprintf("%s+\".%s\"", name, fld.Name())
			flv := fmt.Sprintf("%s.%s", lv, fld.Name())
			ft := fld.Type()
			switch ft.Underlying().(type) {
			case *types.Struct, *types.Array:
				if _, isArr := ft.Underlying().(*types.Array); isArr && isByte(ft.Underlying().(*types.Array).Elem()) {
					g.fillBody(b, ft, flv, fname, tn+"."+fld.Name())
				} else {
					f := g.fillFunc(ft)
					fmt.Fprintf(b, "\t%s(&%s, %s)\n", f, flv, fname)
				}
			default:
				g.fillBody(b, ft, flv, fname, tn+"."+fld.Name())
			}
		}
	default:
		panic(unsupported{fmt.Sprintf("type %s (%T)", g.ts(t), u)})
	}
}

// eqFunc returns the name of the generated func eqN(a, b *T) bool.
func (g *generator) eqFunc(t types.Type) string {
	key := g.ts(t)
	if f, ok := g.eqs[key]; ok {
		return f
	}
	g.n++
	name := fmt.Sprintf("c15eq%d", g.n)
	g.eqs[key] = name
	var b strings.Builder
	fmt.Fprintf(&b, "// equality of %s\nfunc %s(a, b *%s) bool {\n\tr := true\n", key, name, key)
	switch {
	case namedIs(t, bitcoinPath, "PublicKey"):
		b.WriteString("\tr = verifrt.BytesEq(a.Bytes(), b.Bytes())\n")
	case namedIs(t, bitcoinPath, "Signature"):
		b.WriteString("\tr = verifrt.And(verifrt.BytesEq(a.R.Bytes(), b.R.Bytes()), verifrt.BytesEq(a.S.Bytes(), b.S.Bytes()))\n")
	default:
		g.eqBody(&b, t, "(*a)", "(*b)")
	}
	b.WriteString("\treturn r\n}\n\n")
	g.out.WriteString(b.String())
	return name
}

func (g *generator) eqBody(b *strings.Builder, t types.Type, x, y string) {
	switch u := t.Underlying().(type) {
	case *types.Basic:
		fmt.Fprintf(b, "\tr = verifrt.And(r, %s == %s)\n", x, y)
	case *types.Array:
		if isByte(u.Elem()) {
			fmt.Fprintf(b, "\tr = verifrt.And(r, verifrt.BytesEq(%s[:], %s[:]))\n", x, y)
			return
		}
		f := g.eqFunc(u.Elem())
		fmt.Fprintf(b, "\tfor i := range %s {\n\t\tr = verifrt.And(r, %s(&%s[i], &%s[i]))\n\t}\n", x, f, x, y)
	case *types.Slice:
		if isByte(u.Elem()) {
			fmt.Fprintf(b, "\tr = verifrt.And(r, verifrt.BytesEq([]byte(%s), []byte(%s)))\n", x, y)
			return
		}
		fmt.Fprintf(b, "\tif len(%s) != len(%s) {\n\t\treturn false\n\t}\n\tfor i := range %s {\n", x, y, x)
		if pt, ok := u.Elem().Underlying().(*types.Pointer); ok {
			f := g.eqFunc(pt.Elem())
			fmt.Fprintf(b, "\t\tif (%s[i] == nil) != (%s[i] == nil) {\n\t\t\treturn false\n\t\t}\n\t\tif %s[i] != nil {\n\t\t\tr = verifrt.And(r, %s(%s[i], %s[i]))\n\t\t}\n", x, y, x, f, x, y)
		} else {
			f := g.eqFunc(u.Elem())
			fmt.Fprintf(b, "\t\tr = verifrt.And(r, %s(&%s[i], &%s[i]))\n", f, x, y)
		}
		b.WriteString("\t}\n")
	case *types.Pointer:
		f := g.eqFunc(u.Elem())
		fmt.Fprintf(b, "\tif (%s == nil) != (%s == nil) {\n\t\treturn false\n\t}\n\tif %s != nil {\n\t\tr = verifrt.And(r, %s(%s, %s))\n\t}\n", x, y, x, f, x, y)
	case *types.Struct:
		for i := 0; i < u.NumFields(); i++ {
			fld := u.Field(i)
			fx, fy := x+"."+fld.Name(), y+"."+fld.Name()
			ft := fld.Type()
			switch ft.Underlying().(type) {
			case *types.Struct:
				f := g.eqFunc(ft)
				fmt.Fprintf(b, "\tr = verifrt.And(r, %s(&%s, &%s))\n", f, fx, fy)
			default:
				g.eqBody(b, ft, fx, fy)
			}
		}
	default:
		panic(unsupported{fmt.Sprintf("type %s", g.ts(t))})
	}
}

// generateRoundTrip emits the C15 harness file for the message types of the
// client package.
func generateRoundTrip(overlay map[string][]byte, cfgPath string) (string, []byte, []string, error) {
	var cfg genConfig
	b, err := os.ReadFile(cfgPath)
	if err != nil {
		return "", nil, nil, err
	}
	if err := json.Unmarshal(b, &cfg); err != nil {
		return "", nil, nil, err
	}
	pcfg := &packages.Config{
		Mode:    packages.NeedTypes | packages.NeedImports | packages.NeedDeps | packages.NeedName | packages.NeedSyntax | packages.NeedTypesInfo | packages.NeedFiles | packages.NeedCompiledGoFiles,
		Dir:     repoRoot,
		Overlay: overlay,
		Env:     append(os.Environ(), "GOFLAGS=-mod=mod", "GOPROXY=off", "GOSUMDB=off", "GOTOOLCHAIN=local"),
	}
	pkgs, err := packages.Load(pcfg, "./"+cfg.Package)
	if err != nil {
		return "", nil, nil, err
	}
	if len(pkgs) != 1 || len(pkgs[0].Errors) > 0 {
		return "", nil, nil, fmt.Errorf("generator: cannot type-check %s: %v", cfg.Package, pkgs[0].Errors)
	}
	pkg := pkgs[0].Types
	g := &generator{cfg: cfg, pkg: pkg, imports: map[string]string{}, fills: map[string]string{}, eqs: map[string]string{}, opt: map[string]bool{}}
	for _, o := range cfg.OptionalPointers {
		g.opt[o] = true
	}
	excl := map[string]bool{}
	for _, e := range cfg.Exclude {
		excl[e] = true
	}
	// message payload types: every named struct type T such that *T has Type() uint64,
	// Serialize(io.Writer) error and Deserialize(io.Reader) error
	var roots []*types.Named
	scope := pkg.Scope()
	names := scope.Names()
	sort.Strings(names)
	for _, nm := range names {
		tn, ok := scope.Lookup(nm).(*types.TypeName)
		if !ok || excl[nm] {
			continue
		}
		named, ok := tn.Type().(*types.Named)
		if !ok {
			continue
		}
		if _, isStruct := named.Underlying().(*types.Struct); !isStruct {
			continue
		}
		ms := types.NewMethodSet(types.NewPointer(named))
		has := func(m string) bool { return ms.Lookup(pkg, m) != nil }
		if has("Serialize") && has("Deserialize") && (has("Type") || contains(cfg.Roots, nm)) {
			roots = append(roots, named)
		}
	}
	var harness strings.Builder
	var entries []string
	for _, r := range roots {
		nm := r.Obj().Name()
		var fill, eq string
		saved := g.out.String()
		savedN := g.n
		ok := func() (ok bool) {
			defer func() {
				if rec := recover(); rec != nil {
					if u, isU := rec.(unsupported); isU {
						g.skipped = append(g.skipped, nm+": "+u.why)
						ok = false
						return
					}
					panic(rec)
				}
			}()
			fill = g.fillFunc(r)
			eq = g.eqFunc(r)
			return true
		}()
		if !ok {
			g.out.Reset()
			g.out.WriteString(saved)
			g.n = savedN
			// forget partially generated helpers
			for k, v := range g.fills {
				if !strings.Contains(saved, "func "+v+"(") {
					delete(g.fills, k)
				}
			}
			for k, v := range g.eqs {
				if !strings.Contains(saved, "func "+v+"(") {
					delete(g.eqs, k)
				}
			}
			continue
		}
		entry := "VerifHarness_C15_rt_" + nm
		entries = append(entries, entry)
		fmt.Fprintf(&harness, "func %s() {\n\tvar m %s\n\tc15ChooseFocus()\n\t%s(&m, \"m\")\n\tc15CheckFocus()\n\tc15RoundTrip(%q, &m, func() c15Codec { return new(%s) }, func(a, b c15Codec) bool { return %s(a.(*%s), b.(*%s)) })\n}\n\n",
			entry, nm, fill, nm, nm, eq, nm, nm)
	}
	var file strings.Builder
	fmt.Fprintf(&file, "// Code generated by gosym from the current %s types; DO NOT EDIT.\n\npackage %s\n\nimport (\n", cfg.Package, pkg.Name())
	file.WriteString("\t\"github.com/tokenized/spynode/internal/verifrt\"\n")
	var paths []string
	for p := range g.imports {
		paths = append(paths, p)
	}
	sort.Strings(paths)
	for _, p := range paths {
		fmt.Fprintf(&file, "\t%s %q\n", g.imports[p], p)
	}
	file.WriteString(")\n\n")
	file.WriteString(g.out.String())
	file.WriteString(harness.String())
	if len(g.skipped) > 0 {
		file.WriteString("// skipped by the generator:\n")
		for _, s := range g.skipped {
			file.WriteString("//   " + s + "\n")
		}
	}
	path := filepath.Join(repoRoot, cfg.Package, "zz_verif_generated_roundtrip.go")
	return path, []byte(file.String()), entries, nil
}

func contains(l []string, s string) bool {
	for _, x := range l {
		if x == s {
			return true
		}
	}
	return false
}
