// gosym — solver-based checking of the real tokenized/spynode code.
//
//	gosym check <property> [--tier quick|thorough] [--only <harness>] [--workers N]
//	gosym replay <property> <cex.json>
//	gosym list
//
// See /verif/DESIGN.md.
package main

import (
	"encoding/json"
	"flag"
	"fmt"
	"os"
	"path/filepath"
	"runtime/debug"
	"runtime/pprof"
	"sort"
	"strconv"
	"strings"
	"time"

	"verif/engine/interp"
)

// repoRoot is the tree under verification: always /repo for registered checks.
// $VERIF_REPO points a run at a scratch worktree instead (used only to try a
// seeded change without touching /repo); such a run never writes evidence.
var repoRoot, scratchRepo = func() (string, bool) {
	if v := os.Getenv("VERIF_REPO"); v != "" && v != "/repo" {
		return v, true
	}
	return "/repo", false
}()

// verifRoot is the framework directory: $VERIF_ROOT, else the current
// directory when it holds harness/ (the check script cds there), else /verif.
var verifRoot = func() string {
	if v := os.Getenv("VERIF_ROOT"); v != "" {
		return v
	}
	if wd, err := os.Getwd(); err == nil {
		if st, err := os.Stat(filepath.Join(wd, "harness")); err == nil && st.IsDir() {
			return wd
		}
	}
	return "/verif"
}()

func main() {
	debug.SetGCPercent(800)
	if len(os.Args) < 2 {
		usage()
	}
	switch os.Args[1] {
	case "check":
		code := cmdCheck(os.Args[2:])
		pprof.StopCPUProfile()
		os.Exit(code)
	case "replay":
		os.Exit(cmdReplay(os.Args[2:]))
	case "list":
		props, err := loadProps()
		if err != nil {
			fatal(err)
		}
		for _, p := range props {
			fmt.Println(p.ID, p.Dir)
		}
	default:
		usage()
	}
}

func usage() {
	fmt.Fprintln(os.Stderr, "usage: gosym check <property> [--tier quick|thorough] [--only harness] | replay <property> <cex.json> | list")
	os.Exit(2)
}

func fatal(err error) {
	fmt.Fprintln(os.Stderr, "gosym:", err)
	os.Exit(2)
}

// Prop is the per-property metadata in /verif/harness/<id>/meta.json.
type Prop struct {
	ID          string   `json:"id"`
	Level       string   `json:"level"`
	Explanation string   `json:"explanation"`
	Assumptions []string `json:"assumptions"`
	Bounds      map[string]map[string]interface{} `json:"bounds"` // tier -> bounds
	Outside     []string `json:"outside"`
	RequireReach []string `json:"require_reach"`
	Dir         string   `json:"-"`
	// engine knobs
	Workers        int   `json:"workers"`
	StepBudget     int64 `json:"step_budget"`
	SolverTimeoutMs map[string]int `json:"solver_timeout_ms"`
	MaxSymLen      int   `json:"max_sym_len"`
	TimeSeam       []string `json:"time_seam"` // repo files whose time.* calls are redirected for native replay
	TimeoutS       map[string]int `json:"timeout_s"`
	Rewrites       []Rewrite `json:"rewrites"` // source-level constant reductions (stated in evidence)
}

// Rewrite is a regenerated in-memory edit of one repo file (e.g. the chunk
// size of the block store); applied to the overlay for both the engine and
// native replay; the check fails closed if Old is not found exactly once.
type Rewrite struct {
	File  string `json:"file"`
	Old   string `json:"old"`
	New   string `json:"new"`
	Tiers []string `json:"tiers"`
	Why   string `json:"why"`
}

func loadProps() ([]*Prop, error) {
	ents, err := os.ReadDir(filepath.Join(verifRoot, "harness"))
	if err != nil {
		return nil, err
	}
	var out []*Prop
	for _, e := range ents {
		if !e.IsDir() {
			continue
		}
		p, err := loadProp(e.Name())
		if err != nil {
			return nil, err
		}
		out = append(out, p)
	}
	return out, nil
}

func loadProp(id string) (*Prop, error) {
	dir := filepath.Join(verifRoot, "harness", id)
	b, err := os.ReadFile(filepath.Join(dir, "meta.json"))
	if err != nil {
		return nil, err
	}
	p := &Prop{}
	if err := json.Unmarshal(b, p); err != nil {
		return nil, fmt.Errorf("%s/meta.json: %v", dir, err)
	}
	p.Dir = dir
	if p.ID == "" {
		p.ID = id
	}
	return p, nil
}

func envInt(name string, def int) int {
	if s := os.Getenv(name); s != "" {
		if v, err := strconv.Atoi(s); err == nil {
			return v
		}
	}
	return def
}

func cmdCheck(args []string) int {
	fs := flag.NewFlagSet("check", flag.ExitOnError)
	tier := fs.String("tier", os.Getenv("VERIF_TIER"), "quick or thorough")
	only := fs.String("only", "", "run only harnesses whose name contains this")
	workers := fs.Int("workers", 0, "parallel workers")
	verbose := fs.Bool("v", false, "verbose")
	noReplay := fs.Bool("no-replay", false, "skip native replay (debugging only; never used by registered commands)")
	noEvidence := fs.Bool("no-evidence", false, "do not write the evidence file")
	tracePath := fs.Bool("trace", false, "trace interpreted instructions (debugging)")
	cpuprof := fs.String("cpuprofile", "", "write a CPU profile (debugging)")
	var id string
	if len(args) > 0 && !strings.HasPrefix(args[0], "-") {
		id = args[0]
		args = args[1:]
	}
	fs.Parse(args)
	if id == "" && fs.NArg() > 0 {
		id = fs.Arg(0)
	}
	if id == "" {
		usage()
	}
	if *tier == "" {
		*tier = "quick"
	}
	if *tier != "quick" && *tier != "thorough" {
		fatal(fmt.Errorf("bad tier %q", *tier))
	}
	seed := int64(envInt("VERIF_SEED", 1))
	prop, err := loadProp(id)
	if err != nil {
		fatal(err)
	}
	if *cpuprof != "" {
		f, err := os.Create(*cpuprof)
		if err != nil {
			fatal(err)
		}
		pprof.StartCPUProfile(f)
		defer pprof.StopCPUProfile()
	}
	start := time.Now()
	if *workers == 0 {
		if v, err := strconv.Atoi(os.Getenv("GOSYM_WORKERS")); err == nil && v > 0 {
			*workers = v
		}
	}
	run := &checkRun{prop: prop, tier: *tier, seed: seed, only: *only, workers: *workers, verbose: *verbose,
		noReplay: *noReplay, trace: *tracePath}
	code := run.run()
	run.wall = time.Since(start)
	if scratchRepo {
		fmt.Printf("gosym: NOTE: checking scratch tree %s (VERIF_REPO), no evidence written\n", repoRoot)
	}
	if !*noEvidence && *only == "" && !scratchRepo {
		if err := run.writeEvidence(); err != nil {
			fmt.Fprintln(os.Stderr, "gosym: writing evidence:", err)
			if code == 0 {
				code = 2
			}
		}
	}
	run.printSummary(code)
	return code
}

func cmdReplay(args []string) int {
	if len(args) < 2 {
		usage()
	}
	prop, err := loadProp(args[0])
	if err != nil {
		fatal(err)
	}
	b, err := os.ReadFile(args[1])
	if err != nil {
		fatal(err)
	}
	var c cexFile
	if err := json.Unmarshal(b, &c); err != nil {
		fatal(err)
	}
	tier := "quick"
	if c.Thorough {
		tier = "thorough"
	}
	run := &checkRun{prop: prop, tier: tier}
	if err := run.prepare(); err != nil {
		fatal(err)
	}
	defer run.cleanup()
	out, res, err := run.replayNative(&c)
	fmt.Println(out)
	if err != nil {
		fatal(err)
	}
	fmt.Printf("replay result: %s label=%s sig=%s\n", res.Result, res.Label, res.Sig)
	if res.Result == "violated" || res.Result == "panic" {
		return 1
	}
	return 0
}

type cexFile struct {
	Property string            `json:"property"`
	Harness  string            `json:"harness"`
	Label    string            `json:"label"`
	Sig      string            `json:"sig"`
	Detail   string            `json:"detail"`
	Where    string            `json:"where,omitempty"`
	Model    map[string]uint64 `json:"model"`
	Thorough bool              `json:"thorough"`
	Notes    []string          `json:"notes,omitempty"`
}

func sortedKeys(m map[string]int) []string {
	var ks []string
	for k := range m {
		ks = append(ks, k)
	}
	sort.Strings(ks)
	return ks
}

var _ = interp.DefaultConfig
