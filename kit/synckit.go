package kit

// Sync kit (package spynode): a tree of real blocks, a reference Bitcoin peer
// and the units that drive the node's real message handling and block
// processing.

import (
	"context"
	"time"

	"github.com/tokenized/pkg/bitcoin"
	"github.com/tokenized/pkg/wire"
	"github.com/tokenized/spynode/internal/handlers"

	"github.com/tokenized/spynode/internal/verifrt"
)

// vkTree is a block tree rooted at the node's genesis block.
type vkTree struct {
	genesis bitcoin.Hash32
	names   []string
	blocks  map[string]*wire.MsgBlock
	hashes  map[string]bitcoin.Hash32
	byHash  map[bitcoin.Hash32]string
	parent  map[string]string // "" = genesis
	serial  int
}

func vkNewTree(genesis bitcoin.Hash32) *vkTree {
	return &vkTree{genesis: genesis, blocks: map[string]*wire.MsgBlock{}, hashes: map[string]bitcoin.Hash32{},
		byHash: map[bitcoin.Hash32]string{}, parent: map[string]string{}}
}

func (t *vkTree) hashOf(name string) bitcoin.Hash32 {
	if name == "" {
		return t.genesis
	}
	return t.hashes[name]
}

// add creates block name on top of parent ("" = genesis) carrying txs.
func (t *vkTree) add(name, parent string, txs []*wire.MsgTx) *wire.MsgBlock {
	t.serial++
	b := vkBlock(t.hashOf(parent), t.serial, txs)
	t.names = append(t.names, name)
	t.blocks[name] = b
	h := *b.Header.BlockHash()
	t.hashes[name] = h
	t.byHash[h] = name
	t.parent[name] = parent
	return b
}

// addOrphan creates a block whose parent is not in the tree.
func (t *vkTree) addOrphan(name string) *wire.MsgBlock {
	t.serial++
	var unknown bitcoin.Hash32
	unknown[0], unknown[1] = 0xfe, byte(t.serial)
	b := vkBlock(unknown, t.serial, nil)
	t.names = append(t.names, name)
	t.blocks[name] = b
	h := *b.Header.BlockHash()
	t.hashes[name] = h
	t.byHash[h] = name
	t.parent[name] = "?"
	return b
}

// chainTo returns the names from the first block above genesis to name.
func (t *vkTree) chainTo(name string) []string {
	var rev []string
	for n := name; n != "" && n != "?"; n = t.parent[n] {
		rev = append(rev, n)
	}
	out := make([]string, len(rev))
	for i := range rev {
		out[len(rev)-1-i] = rev[i]
	}
	return out
}

func (t *vkTree) headerMsg(names ...string) *wire.MsgHeaders {
	m := wire.NewMsgHeaders()
	for _, n := range names {
		h := t.blocks[n].Header
		m.AddBlockHeader(&h)
	}
	return m
}

// vkProcessRun runs the real processBlocks loop until it is idle (first
// sleep with nothing to do) — one "processing step".
func vkProcessRun(ctx context.Context, node *Node) error {
	verifrt.OnSleep(func(d time.Duration) {
		node.lock.Lock()
		node.stopping = true
		node.lock.Unlock()
	})
	err := node.processBlocks(ctx)
	verifrt.OnSleep(nil)
	node.lock.Lock()
	node.stopping = false
	node.lock.Unlock()
	return err
}

// vkOutgoing drains the node's outgoing channel.
func vkOutgoing(node *Node) []wire.Message {
	var out []wire.Message
	for len(node.outgoing.Channel) > 0 {
		out = append(out, <-node.outgoing.Channel)
	}
	return out
}

// vkChainLinked checks the stored chain: every header links to the block
// below it and height<->hash answers are mutually inverse.
func vkChainLinked(ctx context.Context, node *Node, when string) {
	tip := node.blocks.LastHeight()
	var prev *bitcoin.Hash32
	for h := 0; h <= tip; h++ {
		hash, err := node.blocks.Hash(ctx, h)
		verifrt.Sig(when, "hash")
		verifrt.Assert(err == nil && hash != nil, "chain.by-height-answers")
		if err != nil || hash == nil {
			return
		}
		hdr, err := node.blocks.Header(ctx, h)
		verifrt.Sig(when, "header")
		verifrt.Assert(err == nil && hdr != nil && *hdr.BlockHash() == *hash, "chain.header-matches-hash")
		if h > 0 && hdr != nil {
			verifrt.Sig(when, "link")
			verifrt.Assert(hdr.PrevBlock == *prev, "chain.block-links-to-the-block-below")
		}
		got, ok := node.blocks.Height(hash)
		verifrt.Sig(when, "inverse")
		verifrt.Assert(ok && got == h, "chain.height-and-hash-are-inverse")
		prev = hash
	}
	verifrt.Sig(when, "tip")
	verifrt.Assert(prev != nil && *node.blocks.LastHash() == *prev, "chain.tip-is-the-last-hash")
}

// vkPeer is the reference Bitcoin peer: it follows a best chain over the
// tree, answers getheaders by block locator and getdata(block), and announces
// new tips with headers once asked to (sendheaders).
type vkPeer struct {
	tree        *vkTree
	best        []string // best chain, from the first block above genesis
	toNode      []wire.Message
	sendHeaders bool
	announced   map[string]bool
	maxHeaders  int // reply limit of getheaders (0: unlimited)
}

func vkNewPeer(t *vkTree, tip string) *vkPeer {
	return &vkPeer{tree: t, best: t.chainTo(tip), announced: map[string]bool{}}
}

func (p *vkPeer) setBest(tip string) {
	p.best = p.tree.chainTo(tip)
	if p.sendHeaders {
		// announce the part of the new best chain the node has not been told about
		var names []string
		for _, n := range p.best {
			if !p.announced[n] {
				names = append(names, n)
			}
		}
		if len(names) > 0 {
			p.send(p.tree.headerMsg(names...))
			for _, n := range names {
				p.announced[n] = true
			}
		}
	}
}

func (p *vkPeer) send(m wire.Message) { p.toNode = append(p.toNode, m) }

func (p *vkPeer) handle(m wire.Message) {
	switch msg := m.(type) {
	case *wire.MsgGetHeaders:
		// first locator hash on the best chain (or genesis)
		start := 0
		found := false
		for _, loc := range msg.BlockLocatorHashes {
			if *loc == p.tree.genesis {
				start, found = 0, true
				break
			}
			for i, n := range p.best {
				if p.tree.hashes[n] == *loc {
					start, found = i+1, true
					break
				}
			}
			if found {
				break
			}
		}
		if !found {
			start = 0
		}
		names := p.best[start:]
		if p.maxHeaders > 0 && len(names) > p.maxHeaders {
			names = names[:p.maxHeaders] // a getheaders reply carries at most this many headers (2000 in Bitcoin)
		}
		p.send(p.tree.headerMsg(names...))
		for _, n := range names {
			p.announced[n] = true
		}
	case *wire.MsgGetData:
		for _, iv := range msg.InvList {
			if iv.Type != wire.InvTypeBlock {
				continue
			}
			if n, ok := p.tree.byHash[iv.Hash]; ok {
				// every delivery is a freshly parsed message (its transaction cursor starts at zero)
				orig := p.tree.blocks[n]
				fresh := &wire.MsgBlock{Header: orig.Header}
				for _, tx := range orig.Transactions {
					fresh.AddTransaction(tx)
				}
				p.send(fresh)
			}
		}
	case *wire.MsgSendHeaders:
		p.sendHeaders = true
		// lenient peer: whatever part of its best chain it has not told the node about is
		// announced as soon as the node asks for header announcements
		p.setBest(p.best[len(p.best)-1])
	}
}

// vkHeadersOnly configures a start block that is never seen: headers are recorded, no bodies.
func vkHeadersOnly(ctx context.Context, k *vkNode) {
	var never bitcoin.Hash32
	never[0] = 0x99
	vkSetStart(ctx, k, never)
}

// vkSetStart re-configures the start block the way load() would have seen it:
// the configured start hash is not in the store yet, so the start height is
// unknown and the handlers are rebuilt with the new configuration.
func vkSetStart(ctx context.Context, k *vkNode, start bitcoin.Hash32) {
	n := k.node
	n.config.StartHash = start
	n.state.SetStartHeight(-1)
	if h, ok := n.blocks.Height(&start); ok {
		n.state.SetStartHeight(h)
	}
	n.messageHandlers = handlers.NewTrustedMessageHandlers(ctx, n.config, n.state, n.peers, n.blocks,
		&n.blockRefeeder, n.txs, n.reorgs, n.txTracker, n.memPool, &n.unconfTxChannel, n.handlers)
}
