package kit

// World kit (package spynode): node + reference peer + the scheduler steps
// shared by the C01 / C10 / C12 harnesses.

import (
	"context"
	"time"

	"github.com/tokenized/pkg/wire"

	"github.com/tokenized/spynode/internal/verifrt"
)

type c01World struct {
	ctx    context.Context
	k      *vkNode
	tree   *vkTree
	peer   *vkPeer
	last   wire.Message // last message delivered to the node
	heard  map[string]bool // blocks whose announcement has been delivered to the node
	inSync int          // number of in-sync notifications seen so far (across restarts)
	dead     bool       // the (faulted) node could not be restarted in place
	tolerant bool       // storage faults are being injected: errors of the units are expected
	// interleavings left: a peer message may be handled between the block processor's pop of a
	// block and its ProcessBlock call (needs the property's source rewrite that inserts the point)
	interleave int
	// the configured start block is never seen: the node only records headers (no block bodies)
	headersOnly bool
	// the in-sync notification was delivered at an instant when the node did not hold every
	// block announced so far (observed inside the notification, not after the step)
	inSyncEarly bool
	// interleavePoll: budget of periodic checks that may run at the interleaving point inside the
	// block processor (between NextBlock and ProcessBlock)
	interleavePoll int
	hooked      *vkRecorder
}

// watch makes the current node's recorder evaluate the in-sync condition at the instant of the
// notification.
func (w *c01World) watch() {
	if w.hooked == w.k.rec {
		return
	}
	w.hooked = w.k.rec
	w.k.rec.onInSync = func() {
		if !w.holdsAllAnnounced() {
			w.inSyncEarly = true
			verifrt.Note("in-sync notified while an announced block is not held: node height %d, peer best %v", w.k.node.blocks.LastHeight(), w.peer.best)
		}
	}
}

func (w *c01World) pump() {
	w.watch()
	for _, m := range vkOutgoing(w.k.node) {
		w.peer.handle(m)
	}
}

func (w *c01World) deliver() bool {
	w.watch()
	if len(w.peer.toNode) == 0 {
		return false
	}
	m := w.peer.toNode[0]
	w.peer.toNode = w.peer.toNode[1:]
	w.last = m
	if hm, ok := m.(*wire.MsgHeaders); ok {
		for _, h := range hm.Headers {
			if n, known := w.tree.byHash[*h.BlockHash()]; known {
				w.heard[n] = true
			}
		}
	}
	if im, ok := m.(*wire.MsgInv); ok {
		// a block inventory announces that block (and with it the chain below it)
		for _, iv := range im.InvList {
			if n, known := w.tree.byHash[iv.Hash]; known && iv.Type == wire.InvTypeBlock {
				for _, below := range w.tree.chainTo(n) {
					w.heard[below] = true
				}
			}
		}
	}
	w.k.node.handleMessage(w.ctx, m)
	w.pump()
	return true
}

func (w *c01World) process() {
	w.watch()
	if w.interleave > 0 {
		vkInterleave = func(point string) {
			if w.interleave > 0 && len(w.peer.toNode) > 0 && verifrt.Choose("interleave: handle the next peer message at "+point, 2) == 1 {
				w.interleave--
				w.deliver()
				// ... and the poll goroutine may run there as well
				if verifrt.Choose("interleave: then the periodic check runs", 2) == 1 {
					w.poll()
				}
				verifrt.Reach("world.interleaved")
			}
		}
	}
	if w.interleavePoll > 0 {
		// the periodic check alone may run at the interleaving point (no message needed)
		vkInterleave = func(point string) {
			if w.interleavePoll > 0 && verifrt.Choose("interleave: the periodic check runs at "+point, 2) == 1 {
				w.interleavePoll--
				w.poll()
				verifrt.Reach("world.interleaved-check")
			}
		}
	}
	err := vkProcessRun(w.ctx, w.k.node)
	vkInterleave = nil
	if err != nil {
		verifrt.Note("processing run failed at node height %d (tip %s): %v", w.k.node.blocks.LastHeight(), w.tree.byHash[*w.k.node.blocks.LastHash()], err)
	}
	if !w.tolerant {
		verifrt.Sig("process", "err")
		verifrt.Assert(err == nil, "C01.process.no-error")
	}
	w.pump()
}

func (w *c01World) poll() {
	w.watch()
	err := w.k.node.check(w.ctx)
	if !w.tolerant {
		verifrt.Sig("check", "err")
		verifrt.Assert(err == nil, "C01.check.no-error")
	}
	w.pump()
}

// restart: clean stop (saves), state reset, a new node on the same storage and
// a new connection to the peer.
func (w *c01World) restart() {
	n := w.k.node
	n.blocks.Save(w.ctx)
	n.txs.Save(w.ctx)
	n.peers.Save(w.ctx)
	n.state.Reset()
	w.inSync += w.countInSync()
	k2, err := vkNewNode(w.ctx, w.k.store)
	if !w.tolerant {
		verifrt.Sig("restart", "load")
		verifrt.Assert(err == nil, "C01.restart.loads")
	}
	if err != nil {
		w.dead = true
		return
	}
	w.k = k2
	if w.headersOnly {
		vkHeadersOnly(w.ctx, k2)
	}
	w.k.node.state.SetVersionReceived()
	w.k.node.state.MarkConnected()
	w.peer.toNode = nil
	w.peer.sendHeaders = false
	w.peer.announced = map[string]bool{}
	verifrt.Reach("C01.restarted")
}

// reconnect: what Node.Run does when a request time-out (or a connection error) asks for a
// restart: the SAME node saves, resets its sync state in place (State.Reset) and opens a new
// connection to the peer.
func (w *c01World) reconnect() {
	n := w.k.node
	n.blocks.Save(w.ctx)
	n.txs.Save(w.ctx)
	n.peers.Save(w.ctx)
	n.state.Reset()
	vkOutgoing(n) // what was queued for the dead connection is gone
	n.state.SetVersionReceived()
	n.state.MarkConnected()
	w.peer.toNode = nil
	w.peer.sendHeaders = false
	w.peer.announced = map[string]bool{}
	w.last = nil
	verifrt.Reach("world.reconnected")
}

func (w *c01World) countInSync() int {
	n := 0
	for _, e := range w.k.rec.events {
		if e.kind == "insync" {
			n++
		}
	}
	return n
}

// holdsAllAnnounced: the node's store contains every block the peer has announced so far.
func (w *c01World) holdsAllAnnounced() bool {
	for _, name := range w.peer.best {
		// (blocks of an abandoned branch are not held after the reorganisation; the
		// announced blocks that count are those of the peer's current best chain)
		if !w.heard[name] {
			continue
		}
		h := w.tree.hashes[name]
		if !w.k.node.blocks.Contains(&h) {
			return false
		}
	}
	return true
}

func (w *c01World) checkInSyncNotifications(before int) {
	if w.countInSync() > before {
		var ann []string
		for _, n := range w.peer.best {
			if w.heard[n] {
				ann = append(ann, n)
			}
		}
		verifrt.Note("in-sync notified: node height %d tip %s, peer best %v, announced of best %v", w.k.node.blocks.LastHeight(), w.tree.byHash[*w.k.node.blocks.LastHash()], w.peer.best, ann)
		verifrt.Sig("insync", "early")
		verifrt.Assert(w.holdsAllAnnounced() && !w.inSyncEarly, "C01.in-sync.only-when-holding-every-announced-block")
		verifrt.Reach("C01.in-sync.notified")
	}
}

func (w *c01World) converged() bool {
	best := w.peer.best
	if w.k.node.blocks.LastHeight() != len(best) {
		return false
	}
	h := w.tree.hashes[best[len(best)-1]]
	return *w.k.node.blocks.LastHash() == h
}

// settle runs the fair closure: consume everything queued, process, poll, and
// let request time-outs fire (restart) when nothing else is enabled.
func (w *c01World) settle(rounds int) {
	for r := 0; r < rounds && !w.dead; r++ {
		progressed := false
		for w.deliver() {
			progressed = true
			w.process()
		}
		w.process()
		w.poll()
		if len(w.peer.toNode) > 0 {
			progressed = true
		}
		if !progressed && !w.converged() {
			verifrt.Advance(11 * time.Minute)
			if terr := w.k.node.state.CheckTimeouts(); terr != nil {
				if w.tolerant {
					w.restart() // faulted stores are resumed by a new process (C10)
				} else {
					w.reconnect()
				}
			}
		}
	}
}
