package kit

// vkStore is the harness implementation of storage.Storage: an ordered
// key -> bytes list with a switchable "remove of a missing key" behaviour
// (error, like MockStorage / the filesystem; or success, like S3's
// DeleteObject), a crash index (mutations after the k-th are dropped) and a
// failing-operation index (the j-th read/write/remove returns an error).
// Plain Go: interpreted by the engine and compiled natively for replay.

import (
	"context"
	"errors"
	"sync"

	"github.com/tokenized/pkg/storage"
)

var errVkInjected = errors.New("injected storage failure")

type vkEnt struct {
	key  string
	data []byte
}

type vkStore struct {
	ents            []vkEnt
	removeMissingOK bool
	mutations       int // writes+removes performed so far
	crashAfter      int // mutations with index >= crashAfter are dropped (-1: never)
	ops             int // reads+writes+removes so far
	failOp          int // the op with this index fails (-1: never)
	failed          bool
	mutLog          []string
	mu              sync.Mutex // the node's goroutines share the store (native runs)
}

func newVkStore() *vkStore {
	return &vkStore{crashAfter: -1, failOp: -1}
}

// clone returns the persistent image (what a new process would see).
func (s *vkStore) clone() *vkStore {
	c := newVkStore()
	c.removeMissingOK = s.removeMissingOK
	for _, e := range s.ents {
		d := make([]byte, len(e.data))
		copy(d, e.data)
		c.ents = append(c.ents, vkEnt{e.key, d})
	}
	return c
}

func (s *vkStore) find(key string) int {
	for i := range s.ents {
		if s.ents[i].key == key {
			return i
		}
	}
	return -1
}

func (s *vkStore) step() bool {
	i := s.ops
	s.ops++
	if i == s.failOp {
		s.failed = true
		return true
	}
	return false
}

func (s *vkStore) Read(ctx context.Context, key string) ([]byte, error) {
	s.mu.Lock()
	defer s.mu.Unlock()
	if s.step() {
		return nil, errVkInjected
	}
	i := s.find(key)
	if i < 0 {
		return nil, storage.ErrNotFound
	}
	out := make([]byte, len(s.ents[i].data))
	copy(out, s.ents[i].data)
	return out, nil
}

func (s *vkStore) Write(ctx context.Context, key string, body []byte, options *storage.Options) error {
	s.mu.Lock()
	defer s.mu.Unlock()
	if s.step() {
		return errVkInjected
	}
	m := s.mutations
	s.mutations++
	if s.crashAfter >= 0 && m >= s.crashAfter {
		return nil // the process is already dead as far as storage is concerned
	}
	d := make([]byte, len(body))
	copy(d, body)
	if i := s.find(key); i >= 0 {
		s.ents[i].data = d
	} else {
		s.ents = append(s.ents, vkEnt{key, d})
	}
	s.mutLog = append(s.mutLog, "write "+key)
	return nil
}

func (s *vkStore) Remove(ctx context.Context, key string) error {
	s.mu.Lock()
	defer s.mu.Unlock()
	if s.step() {
		return errVkInjected
	}
	i := s.find(key)
	if i < 0 {
		if s.removeMissingOK {
			return nil
		}
		return storage.ErrNotFound
	}
	m := s.mutations
	s.mutations++
	if s.crashAfter >= 0 && m >= s.crashAfter {
		return nil
	}
	s.ents = append(s.ents[:i:i], s.ents[i+1:]...)
	s.mutLog = append(s.mutLog, "remove "+key)
	return nil
}

func (s *vkStore) Search(ctx context.Context, query map[string]string) ([][]byte, error) {
	s.mu.Lock()
	defer s.mu.Unlock()
	path := query["path"]
	var out [][]byte
	for _, e := range s.ents {
		if len(e.key) >= len(path) && e.key[:len(path)] == path {
			out = append(out, e.data)
		}
	}
	return out, nil
}

func (s *vkStore) Clear(ctx context.Context, query map[string]string) error {
	s.mu.Lock()
	defer s.mu.Unlock()
	path := query["path"]
	var keep []vkEnt
	for _, e := range s.ents {
		if !(len(e.key) >= len(path) && e.key[:len(path)] == path) {
			keep = append(keep, e)
		}
	}
	s.ents = keep
	return nil
}

func (s *vkStore) List(ctx context.Context, path string) ([]string, error) {
	s.mu.Lock()
	defer s.mu.Unlock()
	var out []string
	for _, e := range s.ents {
		if len(e.key) >= len(path) && e.key[:len(path)] == path {
			out = append(out, e.key)
		}
	}
	return out, nil
}

func (s *vkStore) Copy(ctx context.Context, fromKey, toKey string) error {
	s.mu.Lock()
	i := s.find(fromKey)
	if i < 0 {
		s.mu.Unlock()
		return storage.ErrNotFound
	}
	data := s.ents[i].data
	s.mu.Unlock()
	return s.Write(ctx, toKey, data, nil)
}
