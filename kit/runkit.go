package kit

// Run kit (package spynode): the real Node.Run as cooperative goroutines against a reference peer
// that speaks the real wire encoding over an in-memory connection (natively: real goroutines,
// real time, a loopback TCP listener).  Used by the C19 and C14 session harnesses.

import (
	"bytes"
	"context"
	"net"
	"sync"
	"time"

	"github.com/tokenized/pkg/bitcoin"
	"github.com/tokenized/pkg/wire"
	"github.com/tokenized/spynode/internal/platform/config"

	"github.com/tokenized/spynode/internal/verifrt"
)

func c19Encode(m wire.Message) []byte {
	var b bytes.Buffer
	if _, err := wire.WriteMessageN(&b, m, wire.ProtocolVersion, wire.BitcoinNet(bitcoin.MainNet)); err != nil {
		verifrt.Assume(false)
	}
	return b.Bytes()
}

// c19Link is the peer's end of one connection.
type c19Link struct {
	pipe *vkPipe // engine
	mu   sync.Mutex
	conn net.Conn // native: accepted server side
	got  []byte
	read int // bytes already parsed
	dead bool
}

func (l *c19Link) bytesFromNode() []byte {
	if l.pipe != nil {
		return l.pipe.all()
	}
	l.mu.Lock()
	defer l.mu.Unlock()
	return append([]byte(nil), l.got...)
}

func (l *c19Link) fromNode() []wire.Message {
	raw := l.bytesFromNode()[l.read:]
	var out []wire.Message
	r := bytes.NewReader(raw)
	for r.Len() > 0 {
		before := r.Len()
		_, m, _, err := wire.ReadMessageN(r, wire.ProtocolVersion, wire.BitcoinNet(bitcoin.MainNet))
		if err != nil {
			break
		}
		l.read += before - r.Len()
		out = append(out, m)
	}
	return out
}

func (l *c19Link) toNode(m wire.Message) {
	if l.dead {
		return
	}
	if l.pipe != nil {
		l.pipe.feed(c19Encode(m))
		return
	}
	l.mu.Lock()
	c := l.conn
	l.mu.Unlock()
	if c != nil {
		c.Write(c19Encode(m))
	}
}

// hangUp: the peer closes the connection.
func (l *c19Link) hangUp() {
	l.dead = true
	if l.pipe != nil {
		l.pipe.hangUp()
		return
	}
	// natively the node may not have dialled yet: the peer closes the connection once it exists
	for i := 0; i < 100; i++ {
		l.mu.Lock()
		c := l.conn
		l.mu.Unlock()
		if c != nil {
			c.Close()
			return
		}
		time.Sleep(20 * time.Millisecond)
	}
}

type c19World struct {
	ctx   context.Context
	node  *Node
	rec   *vkRecorder
	tree  *vkTree
	peer  *vkPeer
	link  *c19Link
	ln    net.Listener // native
	links int
	txs   map[bitcoin.Hash32]*wire.MsgTx // transactions the peer can serve
	seen  []wire.Message                 // everything the node has sent, in order
	ticks     int
	pingEvery int // the peer pings every so many ticks (0: never)
	fetcher *vkFetcher
}

// connectPeer prepares the peer's end of the NEXT connection the node will open.
func (w *c19World) connectPeer() {
	w.links++
	w.peer.toNode = nil
	w.peer.sendHeaders = false
	w.peer.announced = map[string]bool{}
	if verifrt.Symbolic() {
		w.link = &c19Link{pipe: newVkPipe()}
		verifrt.SetDialConn(net.Conn(w.link.pipe))
		return
	}
	l := &c19Link{}
	w.link = l
	go func() {
		c, err := w.ln.Accept()
		if err != nil {
			return
		}
		l.mu.Lock()
		l.conn = c
		l.mu.Unlock()
		buf := make([]byte, 65536)
		for {
			n, rerr := c.Read(buf)
			l.mu.Lock()
			l.got = append(l.got, buf[:n]...)
			l.mu.Unlock()
			if rerr != nil {
				return
			}
		}
	}()
}

// tick lets the node run at the current instant, plays the peer's part, and lets d pass.
func (w *c19World) tick(d time.Duration) {
	w.ticks++
	if w.pingEvery > 0 && w.ticks%w.pingEvery == 0 {
		w.link.toNode(wire.NewMsgPing(uint64(w.ticks))) // a Bitcoin node shows activity
	}
	verifrt.Quiesce()
	for _, m := range w.link.fromNode() {
		w.seen = append(w.seen, m)
		switch msg := m.(type) {
		case *wire.MsgVersion:
			me := wire.NewNetAddressIPPort(net.IPv4(127, 0, 0, 1), 8333, 0)
			w.link.toNode(wire.NewMsgVersion(me, me, 7, 0))
			w.link.toNode(wire.NewMsgVerAck())
		case *wire.MsgGetData:
			for _, iv := range msg.InvList {
				if iv.Type == wire.InvTypeTx {
					if tx, ok := w.txs[iv.Hash]; ok {
						w.link.toNode(tx)
					}
				}
			}
			w.peer.handle(m)
		default:
			w.peer.handle(m)
		}
	}
	for _, m := range w.peer.toNode {
		w.link.toNode(m)
	}
	w.peer.toNode = nil
	verifrt.Quiesce()
	time.Sleep(d)
}

func (w *c19World) announceTx(tx *wire.MsgTx) {
	h := *tx.TxHash()
	w.txs[h] = tx
	inv := wire.NewMsgInv()
	inv.AddInvVect(wire.NewInvVect(wire.InvTypeTx, &h))
	w.link.toNode(inv)
}

func c19NewWorld(ctx context.Context) (*c19World, *vkStore, config.Config) {
	verifrt.RealTime() // natively the regenerated time seam (if any) follows the wall clock
	store := newVkStore()
	probe, perr := vkNewNode(ctx, nil)
	verifrt.Assert(perr == nil, "C19.kit.node-loads")
	tree := vkNewTree(*probe.node.blocks.LastHash())
	tree.add("a1", "", nil)
	tree.add("a2", "a1", []*wire.MsgTx{vkTx(1, []int{0}, true)})
	tree.add("a3", "a2", nil)
	tree.add("a4", "a3", []*wire.MsgTx{vkTx(2, []int{1}, true)})
	cfg := config.Config{Net: bitcoin.MainNet, NodeAddress: "mem", SafeTxDelay: 2000, UntrustedCount: 0,
		MaxRetries: 25, RetryDelay: 300, StartHash: tree.hashOf("a1")}
	w := &c19World{ctx: ctx, tree: tree, txs: map[bitcoin.Hash32]*wire.MsgTx{}}
	if !verifrt.Symbolic() {
		ln, lerr := net.Listen("tcp", "127.0.0.1:0")
		if lerr != nil {
			verifrt.Assume(false)
		}
		w.ln = ln
		cfg.NodeAddress = ln.Addr().String()
	}
	w.peer = vkNewPeer(tree, "a3")
	return w, store, cfg
}

func (w *c19World) newNode(cfg config.Config, store *vkStore) {
	f := &vkFetcher{}
	w.fetcher = f
	w.node = NewNode(cfg, store, f, f)
	w.rec = &vkRecorder{}
	w.node.RegisterHandler(w.rec)
	w.node.SubscribePushDatas(w.ctx, [][]byte{vkSubscribed()})
}


func (w *c19World) commands() []string {
	var out []string
	for _, m := range w.seen {
		out = append(out, m.Command())
	}
	return out
}
