package kit

// vkConn is an in-memory net.Conn: writes are appended to Written (or fail
// from the FailAt-th write on), reads come from ReadBuf.

import (
	"errors"
	"io"
	"net"
	"sync"
	"time"
)

var errVkConn = errors.New("injected connection failure")

type vkAddr struct{}

func (vkAddr) Network() string { return "mem" }
func (vkAddr) String() string  { return "mem" }

type vkConn struct {
	Written [][]byte // one entry per Write call
	ReadBuf []byte
	Writes  int
	FailAt  int // the write with this index (and later ones) fails; -1: never
	Closed  bool
	mu      sync.Mutex
}

func newVkConn() *vkConn { return &vkConn{FailAt: -1} }

func (c *vkConn) Read(b []byte) (int, error) {
	if len(c.ReadBuf) == 0 {
		return 0, io.EOF
	}
	n := copy(b, c.ReadBuf)
	c.ReadBuf = c.ReadBuf[n:]
	return n, nil
}

func (c *vkConn) Write(b []byte) (int, error) {
	c.mu.Lock()
	defer c.mu.Unlock()
	i := c.Writes
	c.Writes++
	if c.Closed || (c.FailAt >= 0 && i >= c.FailAt) {
		return 0, errVkConn
	}
	d := make([]byte, len(b))
	copy(d, b)
	c.Written = append(c.Written, d)
	return len(b), nil
}

func (c *vkConn) all() []byte {
	c.mu.Lock()
	defer c.mu.Unlock()
	var out []byte
	for _, w := range c.Written {
		out = append(out, w...)
	}
	return out
}

func (c *vkConn) Close() error                       { c.Closed = true; return nil }
func (c *vkConn) LocalAddr() net.Addr                { return vkAddr{} }
func (c *vkConn) RemoteAddr() net.Addr               { return vkAddr{} }
func (c *vkConn) SetDeadline(t time.Time) error      { return nil }
func (c *vkConn) SetReadDeadline(t time.Time) error  { return nil }
func (c *vkConn) SetWriteDeadline(t time.Time) error { return nil }

// vkPipe is an in-memory net.Conn whose Read blocks until the harness feeds
// bytes (feed), closes the remote end (hangUp) or the client closes it.
type vkPipe struct {
	vkConn
	in     chan []byte
	closed chan struct{}
	rest   []byte
}

func newVkPipe() *vkPipe {
	return &vkPipe{vkConn: vkConn{FailAt: -1}, in: make(chan []byte, 64), closed: make(chan struct{})}
}

func (c *vkPipe) feed(b []byte) { c.in <- append([]byte(nil), b...) }
func (c *vkPipe) hangUp()       { close(c.in) }

func (c *vkPipe) Read(b []byte) (int, error) {
	if len(c.rest) == 0 {
		select {
		case d, ok := <-c.in:
			if !ok {
				return 0, io.EOF
			}
			c.rest = d
		case <-c.closed:
			return 0, errors.New("use of closed network connection")
		}
	}
	n := copy(b, c.rest)
	c.rest = c.rest[n:]
	return n, nil
}

func (c *vkPipe) Close() error {
	c.mu.Lock()
	defer c.mu.Unlock()
	if !c.Closed {
		c.Closed = true
		close(c.closed)
	}
	return nil
}
