package kit

// vkInterleave, when set, is called at the interleaving points that a property's source rewrite
// (meta.json "rewrites") inserts into the code under test, e.g. between the block processor's
// pop of the next block and its ProcessBlock call: the harness runs another unit there, which is
// the interleaving of two goroutines at that statement boundary.
var vkInterleave func(point string)
