package kit

// Node kit (package spynode only): a Node on the harness store with a
// recording handler and deterministic fetchers, plus builders for real
// transactions and blocks.

import (
	"context"
	"errors"
	"time"

	"github.com/tokenized/pkg/bitcoin"
	"github.com/tokenized/pkg/wire"
	"github.com/tokenized/spynode/internal/handlers"
	"github.com/tokenized/spynode/internal/platform/config"
	handlersstorage "github.com/tokenized/spynode/internal/storage"
	"github.com/tokenized/spynode/pkg/client"
)

type vkEvent struct {
	kind     string // tx, update, headers, insync, message
	txid     bitcoin.Hash32
	state    client.TxState
	hasProof bool
	height   int
	hash     bitcoin.Hash32 // headers: block hash
	tx       *client.Tx
	at       int
}

type vkRecorder struct {
	events []vkEvent
	// onInSync, when set, runs at the instant the in-sync notification is delivered
	onInSync func()
}

func (r *vkRecorder) HandleTx(ctx context.Context, tx *client.Tx) {
	cp := tx.Copy()
	r.events = append(r.events, vkEvent{kind: "tx", txid: *tx.Tx.TxHash(), state: tx.State.Copy(), hasProof: tx.State.MerkleProof != nil, tx: &cp, at: len(r.events)})
}

func (r *vkRecorder) HandleTxUpdate(ctx context.Context, u *client.TxUpdate) {
	r.events = append(r.events, vkEvent{kind: "update", txid: u.TxID, state: u.State.Copy(), hasProof: u.State.MerkleProof != nil, at: len(r.events)})
}

func (r *vkRecorder) HandleHeaders(ctx context.Context, hs *client.Headers) {
	for i, h := range hs.Headers {
		r.events = append(r.events, vkEvent{kind: "headers", height: int(hs.StartHeight) + i, hash: *h.BlockHash(), at: len(r.events)})
	}
}

func (r *vkRecorder) HandleInSync(ctx context.Context) {
	r.events = append(r.events, vkEvent{kind: "insync", at: len(r.events)})
	if r.onInSync != nil {
		r.onInSync()
	}
}

func (r *vkRecorder) HandleMessage(ctx context.Context, p client.MessagePayload) {
	r.events = append(r.events, vkEvent{kind: "message", at: len(r.events)})
}

func (r *vkRecorder) of(kind string, txid bitcoin.Hash32) []vkEvent {
	var out []vkEvent
	for _, e := range r.events {
		if e.kind == kind && e.txid == txid {
			out = append(out, e)
		}
	}
	return out
}

// vkFetcher answers output lookups with a deterministic function of the
// outpoint and knows no transactions.
type vkFetcher struct {
	calls int
	// strict: outpoints outside the kit's UTXO universe are unknown to the full node behind the
	// fetcher, which answers with an error (as the RPC node of cmd/spynoded does)
	strict bool
	// delay: how long the full node takes to answer (virtual time inside the engine)
	delay time.Duration
}

func vkFetchedValue(op wire.OutPoint) uint64 { return 900000 + uint64(op.Index)*16 + uint64(op.Hash[0]) }

func (f *vkFetcher) GetOutputs(ctx context.Context, ops []wire.OutPoint) ([]bitcoin.UTXO, error) {
	f.calls++
	if f.delay > 0 {
		time.Sleep(f.delay)
	}
	out := make([]bitcoin.UTXO, len(ops))
	for i, op := range ops {
		if f.strict && op.Hash[9] != 0xee {
			return nil, errors.New("No such mempool or blockchain transaction")
		}
		out[i] = bitcoin.UTXO{Hash: op.Hash, Index: op.Index, Value: vkFetchedValue(op), LockingScript: bitcoin.Script{0x51, byte(op.Index)}}
	}
	return out, nil
}

func (f *vkFetcher) GetTx(ctx context.Context, txid bitcoin.Hash32) (*wire.MsgTx, error) {
	return nil, errors.New("not found")
}

// vkSubscribed is the 20-byte push data the kit's node is subscribed to.
func vkSubscribed() []byte {
	b := make([]byte, 20)
	for i := range b {
		b[i] = byte(0xd0 + i)
	}
	return b
}

func vkRelevantScript() bitcoin.Script {
	return bitcoin.Script(append([]byte{0x14}, vkSubscribed()...))
}

func vkIrrelevantScript() bitcoin.Script {
	return bitcoin.Script{0x76, 0xa9, 0x01, 0x07}
}

// vkOutpoint k of the kit's UTXO universe (funding txs the node never saw).
func vkOutpoint(k int) wire.OutPoint {
	var h bitcoin.Hash32
	h[0] = byte(0x30 + k/2)
	h[9] = 0xee
	return wire.OutPoint{Hash: h, Index: uint32(k % 2)}
}

// vkTx builds a real transaction spending the given outpoints of the
// universe; relevant selects an output script the node is subscribed to.
func vkTx(id int, spends []int, relevant bool) *wire.MsgTx {
	tx := wire.NewMsgTx(1)
	for _, k := range spends {
		op := vkOutpoint(k)
		tx.AddTxIn(wire.NewTxIn(&op, bitcoin.Script{0x01, byte(id)}))
	}
	if relevant {
		tx.AddTxOut(wire.NewTxOut(uint64(5000+id), vkRelevantScript()))
	} else {
		tx.AddTxOut(wire.NewTxOut(uint64(5000+id), vkIrrelevantScript()))
	}
	tx.LockTime = uint32(id)
	return tx
}

func vkCoinbase(n int) *wire.MsgTx {
	tx := wire.NewMsgTx(1)
	op := wire.OutPoint{Index: wire.MaxPrevOutIndex}
	tx.AddTxIn(wire.NewTxIn(&op, bitcoin.Script{0x02, byte(n), byte(n >> 8)}))
	tx.AddTxOut(wire.NewTxOut(50, vkIrrelevantScript()))
	return tx
}

// vkBlock builds a real block (coinbase + txs) on prev with a valid merkle root.
func vkBlock(prev bitcoin.Hash32, n int, txs []*wire.MsgTx) *wire.MsgBlock {
	b := &wire.MsgBlock{}
	b.Header = wire.BlockHeader{Version: 1, PrevBlock: prev, Timestamp: uint32(1600000000 + n*600), Bits: 0x1d00ffff, Nonce: uint32(n)}
	b.AddTransaction(vkCoinbase(n))
	for _, tx := range txs {
		b.AddTransaction(tx)
	}
	root, _ := b.CalculateMerkleHash()
	b.Header.MerkleRoot = *root
	return b
}

type vkNode struct {
	node    *Node
	rec     *vkRecorder
	store   *vkStore
	fetcher *vkFetcher
}

// vkNewNode builds and loads a node on store (fresh store if nil), subscribed
// to vkSubscribed(), with the start block at the genesis block.
func vkNewNode(ctx context.Context, store *vkStore) (*vkNode, error) {
	if store == nil {
		store = newVkStore()
	}
	cfg := config.Config{Net: bitcoin.MainNet, SafeTxDelay: 2000, UntrustedCount: 0}
	f := &vkFetcher{}
	node := NewNode(cfg, store, f, f)
	rec := &vkRecorder{}
	node.RegisterHandler(rec)
	if err := node.load(ctx); err != nil {
		return nil, err
	}
	node.unconfTxChannel.Open(100)
	node.outgoing.Open(1000)
	node.SubscribePushDatas(ctx, [][]byte{vkSubscribed()})
	node.state.SetStartHeight(0)
	return &vkNode{node: node, rec: rec, store: store, fetcher: f}, nil
}

// vkUntrusted builds an untrusted peer connection of the node the way
// UntrustedNode.Run wires it (NewUntrustedNode + NewUntrustedMessageHandlers),
// without the network part.
func vkUntrusted(ctx context.Context, k *vkNode, address string, verified bool) *UntrustedNode {
	n := k.node
	u := NewUntrustedNode(address, n.config, n.state, n.store, n.peers, n.blocks, n.txs, n.memPool,
		&n.unconfTxChannel, n.handlers, n, false)
	u.messageHandlers = handlers.NewUntrustedMessageHandlers(ctx, u.trustedState, u.untrustedState,
		u.peers, u.blocks, u.txTracker, u.memPool, u.txChannel, u.isRelevant, u.address)
	if verified {
		u.untrustedState.SetVerified()
	}
	return u
}

// vkDrainTxs runs the body of processUnconfirmedTxs for everything queued.
func vkDrainTxs(ctx context.Context, k *vkNode) error {
	for len(k.node.unconfTxChannel.Channel) > 0 {
		tx := <-k.node.unconfTxChannel.Channel
		if err := k.node.processUnconfirmedTx(ctx, tx); err != nil {
			return err
		}
	}
	return nil
}


// vkFetchState reads the stored state of a transaction.
func vkFetchState(ctx context.Context, node *Node, txid bitcoin.Hash32) (client.TxState, error) {
	tx, err := handlersstorage.FetchTxState(ctx, node.store, txid)
	if err != nil {
		return client.TxState{}, err
	}
	return tx.State, nil
}
