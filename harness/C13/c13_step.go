//verif:pkg internal/state
package state

// C13 — block request window: inductive step from an arbitrary valid
// pre-state, compared against a reference queue model.

import (
	"context"

	"github.com/tokenized/pkg/bitcoin"
	"github.com/tokenized/pkg/wire"

	"github.com/tokenized/spynode/internal/verifrt"
)

// c13Block is a wire.Block whose serialized size is a harness-chosen value.
type c13Block struct {
	id   int
	size int
}

func (b *c13Block) GetHeader() wire.BlockHeader      { return wire.BlockHeader{} }
func (b *c13Block) IsMerkleRootValid() bool          { return true }
func (b *c13Block) GetTxCount() uint64               { return 0 }
func (b *c13Block) GetNextTx() (*wire.MsgTx, error)  { return nil, nil }
func (b *c13Block) ResetTxs()                        {}
func (b *c13Block) SerializeSize() int               { return b.size }

func c13Hash(i int) bitcoin.Hash32 {
	var h bitcoin.Hash32
	h[0] = byte(i)
	h[1] = byte(i >> 8)
	h[31] = 0xc1
	return h
}

type c13Req struct {
	hash    bitcoin.Hash32
	present bool
	size    int
	blk     wire.Block
}

// c13Model is the reference queue.
type c13Model struct {
	req   []c13Req
	toReq []bitcoin.Hash32
	last  bitcoin.Hash32
	// processing: the block processor holds a popped block whose processing has not finished
	processing bool
}

// outstanding is the number of requested-but-unprocessed blocks: the window plus the block the
// processor holds.
func (m *c13Model) outstanding() int {
	if m.processing {
		return len(m.req) + 1
	}
	return len(m.req)
}

func (m *c13Model) pending() int {
	s := 0
	for _, r := range m.req {
		if r.present {
			s += r.size
		}
	}
	return s
}

func (m *c13Model) tail() bitcoin.Hash32 {
	if len(m.toReq) > 0 {
		return m.toReq[len(m.toReq)-1]
	}
	if len(m.req) > 0 {
		return m.req[len(m.req)-1].hash
	}
	return m.last
}

const (
	c13Window = 10
	c13Limit  = 100000000
)

// c13Agree asserts that the real state equals the model and satisfies the
// window invariants.
func c13Agree(st *State, m *c13Model, when string) {
	verifrt.Sig(when, "window")
	verifrt.Assert(len(st.blocksRequested) <= c13Window, "C13.window-at-most-10")
	verifrt.Sig(when, "outstanding")
	verifrt.Assert(m.outstanding() <= c13Window, "C13.requested-but-unprocessed-at-most-10")
	verifrt.Sig(when, "processing")
	verifrt.Assert(st.blockProcessing == m.processing, "C13.model.processing-flag")
	verifrt.Sig(when, "req-len")
	verifrt.Assert(len(st.blocksRequested) == len(m.req), "C13.model.requested-length")
	verifrt.Sig(when, "toreq-len")
	verifrt.Assert(len(st.blocksToRequest) == len(m.toReq), "C13.model.to-request-length")
	if len(st.blocksRequested) != len(m.req) || len(st.blocksToRequest) != len(m.toReq) {
		return
	}
	sum := 0
	for i, r := range st.blocksRequested {
		verifrt.Sig(when, "req-hash")
		verifrt.Assert(r.hash == m.req[i].hash, "C13.model.requested-order")
		verifrt.Sig(when, "req-body")
		verifrt.Assert((r.block != nil) == m.req[i].present, "C13.model.body-presence")
		if r.block != nil {
			sum += r.size
			verifrt.Sig(when, "req-body-id")
			verifrt.Assert(r.block == m.req[i].blk, "C13.model.body-identity")
		}
	}
	for i, h := range st.blocksToRequest {
		verifrt.Sig(when, "toreq-hash")
		verifrt.Assert(h == m.toReq[i], "C13.model.to-request-order")
	}
	verifrt.Sig(when, "pending")
	verifrt.Assert(st.pendingBlockSize == sum, "C13.pending-bytes-equal-buffered")
	verifrt.Sig(when, "pending-model")
	verifrt.Assert(st.pendingBlockSize == m.pending(), "C13.pending-bytes-equal-model")
	verifrt.Sig(when, "last")
	verifrt.Assert(st.lastSavedHash == m.last, "C13.model.last-saved")
	// parent order, no duplicates: hashes are pairwise distinct
	seen := map[bitcoin.Hash32]bool{}
	for _, r := range st.blocksRequested {
		verifrt.Sig(when, "dup")
		verifrt.Assert(!seen[r.hash], "C13.no-duplicate-request")
		seen[r.hash] = true
	}
	for _, h := range st.blocksToRequest {
		verifrt.Sig(when, "dup")
		verifrt.Assert(!seen[h], "C13.no-duplicate-request")
		seen[h] = true
	}
}

// c13Step applies one symbolic operation to both the real state and the model.
func c13Step(st *State, m *c13Model, step string, freshID int) {
	ctx := context.Background()
	// candidate hashes: every queued hash, last saved, a stranger
	var cands []bitcoin.Hash32
	for _, r := range m.req {
		cands = append(cands, r.hash)
	}
	for _, h := range m.toReq {
		cands = append(cands, h)
	}
	cands = append(cands, m.last, c13Hash(60000))
	op := verifrt.Choose(step+".op", 9)
	switch op {
	case 0: // announce: AddBlockRequest(prev, fresh)
		prev := cands[verifrt.Choose(step+".prev", len(cands))]
		fresh := c13Hash(freshID)
		pendingBefore := m.pending()
		wantErr := prev != m.tail()
		wantNow := false
		if !wantErr {
			if len(m.toReq) > 0 {
				m.toReq = append(m.toReq, fresh)
			} else if m.outstanding() >= c13Window || pendingBefore > c13Limit {
				m.toReq = []bitcoin.Hash32{fresh}
			} else {
				m.req = append(m.req, c13Req{hash: fresh})
				wantNow = true
			}
		}
		now, err := st.AddBlockRequest(&prev, &fresh)
		verifrt.Sig("AddBlockRequest", "link")
		verifrt.Assert((err != nil) == wantErr, "C13.announce.refuses-non-linking")
		if err != nil {
			verifrt.Assert(err == ErrWrongPreviousHash, "C13.announce.error-kind")
		}
		verifrt.Sig("AddBlockRequest", "now")
		verifrt.Assert(now == wantNow, "C13.announce.request-now-iff-window-and-bytes-allow")
		c13Agree(st, m, "AddBlockRequest")
	case 1: // deliver: AddBlock(hash, body of symbolic size)
		hash := cands[verifrt.Choose(step+".hash", len(cands))]
		size := verifrt.IntRange(step+".size", 0, 1<<40)
		blk := &c13Block{id: freshID, size: size}
		want := false
		for i := range m.req {
			if m.req[i].hash == hash {
				m.req[i].present = true
				m.req[i].size = size
				m.req[i].blk = blk
				want = true
				break
			}
		}
		got := st.AddBlock(&hash, blk)
		verifrt.Sig("AddBlock", "ret")
		verifrt.Assert(got == want, "C13.deliver.accepted-iff-requested")
		c13Agree(st, m, "AddBlock")
	case 2: // pop
		var want wire.Block
		if len(m.req) > 0 && m.req[0].present {
			want = m.req[0].blk
			m.last = m.req[0].hash
			m.req = m.req[1:]
			m.processing = true
		}
		got := st.NextBlock()
		verifrt.Sig("NextBlock", "ret")
		verifrt.Assert(got == want, "C13.pop.head-only-in-request-order")
		c13Agree(st, m, "NextBlock")
	case 3: // ask for next request
		var want *bitcoin.Hash32
		if len(m.toReq) > 0 && m.outstanding() < c13Window && m.pending() <= c13Limit {
			h := m.toReq[0]
			want = &h
			m.toReq = m.toReq[1:]
			m.req = append(m.req, c13Req{hash: h})
		}
		got, _ := st.GetNextBlockToRequest()
		verifrt.Sig("GetNextBlockToRequest", "ret")
		verifrt.Assert((got != nil) == (want != nil), "C13.next-request.iff-window-and-bytes-allow")
		if got != nil && want != nil {
			verifrt.Assert(*got == *want, "C13.next-request.chain-order")
		}
		c13Agree(st, m, "GetNextBlockToRequest")
	case 4: // clear all
		m.req = nil
		m.toReq = nil
		st.ClearBlockRequests(ctx)
		c13Agree(st, m, "ClearBlockRequests")
	case 5: // clear after hash
		hash := cands[verifrt.Choose(step+".hash", len(cands))]
		done := false
		for i := range m.req {
			if m.req[i].hash == hash {
				m.req = m.req[:i+1]
				m.toReq = nil
				done = true
				break
			}
		}
		if !done {
			for i := range m.toReq {
				if m.toReq[i] == hash {
					m.toReq = m.toReq[:i+1]
					break
				}
			}
		}
		st.ClearBlockRequestsAfter(ctx, hash)
		c13Agree(st, m, "ClearBlockRequestsAfter")
	case 6: // queries
		hash := cands[verifrt.Choose(step+".hash", len(cands))]
		inReq, inTo := false, false
		for _, r := range m.req {
			if r.hash == hash {
				inReq = true
			}
		}
		for _, h := range m.toReq {
			if h == hash {
				inTo = true
			}
		}
		verifrt.Sig("query", "requested")
		verifrt.Assert(st.BlockIsRequested(&hash) == inReq, "C13.query.is-requested")
		verifrt.Sig("query", "to-be-requested")
		verifrt.Assert(st.BlockIsToBeRequested(&hash) == inTo, "C13.query.is-to-be-requested")
		verifrt.Sig("query", "last-hash")
		verifrt.Assert(st.LastHash() == m.tail(), "C13.query.last-hash")
		verifrt.Sig("query", "counts")
		verifrt.Assert(st.TotalBlockRequestCount() == len(m.req)+len(m.toReq), "C13.query.count")
		verifrt.Sig("query", "empty")
		verifrt.Assert(st.BlockRequestsEmpty() == (len(m.req)+len(m.toReq) == 0 && !m.processing), "C13.query.empty-only-when-nothing-is-requested-or-being-processed")
		c13Agree(st, m, "queries")
	case 7: // the block processor finished the block it held (added to the chain or not)
		m.processing = false
		st.BlockProcessed()
		c13Agree(st, m, "BlockProcessed")
	case 8: // the connection is replaced (Node.Run's in-place restart): every request is dropped,
		// nothing is buffered any more, the last saved hash stays
		m.req, m.toReq, m.processing = nil, nil, false
		st.Reset()
		c13Agree(st, m, "Reset")
	}
}

// VerifHarness_C13_step: one operation from an arbitrary pre-state that
// satisfies the representation invariant.
func VerifHarness_C13_step() {
	ns := []int{0, 1, 2, 9, 10}
	maxM := 2
	if verifrt.Thorough() {
		ns = []int{0, 1, 2, 3, 4, 5, 6, 7, 8, 9, 10}
		maxM = 3
	}
	n := ns[verifrt.Choose("n", len(ns))]
	mm := verifrt.Choose("m", maxM+1)
	pat := verifrt.Choose("present-pattern", 5)
	st := NewState()
	m := &c13Model{last: c13Hash(1)}
	st.lastSavedHash = m.last
	if verifrt.Choose("processing", 2) == 1 {
		m.processing, st.blockProcessing = true, true
		verifrt.Reach("C13.step.pre-state-with-a-block-being-processed")
	}
	// representation invariant: at most ten requested-but-unprocessed blocks
	verifrt.Assume(m.outstanding()+n <= c13Window)
	pending := 0
	for i := 0; i < n; i++ {
		h := c13Hash(2 + i)
		present := false
		switch pat {
		case 0:
		case 1:
			present = true
		case 2:
			present = i == 0
		case 3:
			present = i != 0
		case 4:
			present = i%2 == 1
		}
		r := &requestedBlock{hash: h}
		mr := c13Req{hash: h}
		if present {
			size := verifrt.IntRange("size", 0, 1<<40)
			blk := &c13Block{id: 1000 + i, size: size}
			r.block, r.size = blk, size
			mr.present, mr.size, mr.blk = true, size, blk
			pending += size
		}
		st.blocksRequested = append(st.blocksRequested, r)
		m.req = append(m.req, mr)
	}
	// queued-not-requested hashes exist only when the window or the byte
	// limit stopped requests (reachable-state side condition)
	if mm > 0 {
		verifrt.Assume(verifrt.Or(m.outstanding() == c13Window, pending > c13Limit))
	}
	for j := 0; j < mm; j++ {
		h := c13Hash(2 + n + j)
		st.blocksToRequest = append(st.blocksToRequest, h)
		m.toReq = append(m.toReq, h)
	}
	st.pendingBlockSize = pending // representation invariant
	verifrt.Reach("C13.step.pre-state-built")
	c13Step(st, m, "s0", 500)
	verifrt.Reach("C13.step.done")
}

// VerifHarness_C13_bmc: k operations from NewState(), lock-step with the model.
func VerifHarness_C13_bmc() {
	k := 3
	if verifrt.Thorough() {
		k = 5
	}
	st := NewState()
	m := &c13Model{last: c13Hash(1)}
	st.SetLastHash(m.last)
	steps := []string{"s0", "s1", "s2", "s3", "s4", "s5", "s6"}
	for i := 0; i < k; i++ {
		c13Step(st, m, steps[i], 500+i)
	}
	verifrt.Reach("C13.bmc.done")
}
