//verif:pkg internal/spynode
//verif:kit memstore nodekit synckit conn runkit interleave
package spynode

// C19 — Stop terminates the run loop, persists state and silences handlers; a lost trusted
// connection is followed by reconnection and resumption from the stored tip.
//
// The real Node.Run with all of its goroutines (monitorIncoming, monitorRequestTimeouts,
// sendOutgoing, processBlocks, processUnconfirmedTxs, checkTxDelays and the phased shutdown)
// runs as cooperative goroutines on virtual time against a reference peer that speaks the real
// wire encoding over an in-memory connection (natively: real goroutines, real time, a loopback
// TCP listener).

import (
	"context"
	"sync"
	"time"

	"github.com/tokenized/pkg/bitcoin"
	"github.com/tokenized/pkg/wire"
	"github.com/tokenized/spynode/internal/verifrt"
)

// VerifHarness_C19_stop: Stop requested at any tick of a session (connecting, handshake, header
// sync, block download, in sync, transaction traffic, after a connection loss and during the
// reconnection).
func VerifHarness_C19_stop() {
	verifrt.Goroutines()
	ctx := context.Background()
	w, store, cfg := c19NewWorld(ctx)
	if w.ln != nil {
		defer w.ln.Close()
	}
	w.newNode(cfg, store)
	node := w.node
	w.connectPeer()

	horizon := 24
	stopAt := verifrt.Choose("stop-at-tick", horizon+1)
	dropAt := -1
	if verifrt.Choose("connection-lost", 2) == 1 {
		dropAt = verifrt.Choose("lost-at-tick", 16)
	}
	runDone, stopDone, runDoneAtStop := false, false, false
	var mu sync.Mutex
	// a stop request can also arrive before the run loop has started (a signal during start-up)
	stopFirst := stopAt == 0 && verifrt.Choose("stop-requested-before-run-starts", 2) == 1
	stopRequested := int64(0)
	if stopFirst {
		stopRequested = verifrt.NowNanos()
		go func() {
			node.Stop(ctx)
			mu.Lock()
			stopDone = true
			runDoneAtStop = runDone
			mu.Unlock()
		}()
		verifrt.Yield()
		verifrt.Reach("C19.stop.before-run")
	}
	go func() {
		node.Run(ctx)
		mu.Lock()
		runDone = true
		mu.Unlock()
	}()
	done := func() (bool, bool) {
		mu.Lock()
		defer mu.Unlock()
		return runDone, stopDone
	}
	unconf := vkTx(9, []int{5}, true)
	eventsAtStop := -1
	for tick := 0; tick <= horizon+60; tick++ {
		if tick == dropAt && tick < stopAt {
			// the peer closes the connection; it is there again for the node's next attempt and
			// has meanwhile extended its chain
			w.link.hangUp()
			w.connectPeer()
			w.peer.setBest("a4")
			verifrt.Reach("C19.connection.lost")
		}
		if tick == 12 && w.node.state.IsReady() {
			w.announceTx(unconf) // unconfirmed transaction traffic
		}
		if tick == stopAt && !stopFirst {
			stopRequested = verifrt.NowNanos()
			go func() {
				node.Stop(ctx)
				mu.Lock()
				stopDone = true
				runDoneAtStop = runDone // observed at the instant Stop returns
				mu.Unlock()
			}()
		}
		w.tick(100 * time.Millisecond)
		r, s := done()
		if s && eventsAtStop < 0 {
			eventsAtStop = len(w.rec.events)
			elapsed := verifrt.NowNanos() - stopRequested
			verifrt.Sig("stop", "bounded")
			verifrt.Assert(elapsed <= int64(5*time.Second), "C19.stop.returns-within-bounded-time")
			mu.Lock()
			atStop := runDoneAtStop
			mu.Unlock()
			verifrt.Sig("stop", "run-returned")
			verifrt.Assert(atStop, "C19.stop.run-loop-has-returned-when-stop-returns")
			_ = r
		}
		if s && tick >= stopAt+25 {
			break
		}
	}
	_, s := done()
	verifrt.Sig("stop", "returns")
	verifrt.Assert(s, "C19.stop.returns")
	if !s {
		return
	}
	// the peer kept talking for 2.5 s after Stop returned: no handler was invoked
	verifrt.Sig("stop", "silence")
	verifrt.Assert(len(w.rec.events) == eventsAtStop, "C19.stop.no-handler-invoked-after-stop-returns")

	// what was saved: a new node on the same storage has the same chain and unconfirmed set
	tip, tipHash := node.blocks.LastHeight(), *node.blocks.LastHash()
	k2, lerr := vkNewNode(ctx, store)
	verifrt.Sig("stop", "load")
	verifrt.Assert(lerr == nil, "C19.stop.saved-state-loads")
	if lerr != nil {
		return
	}
	verifrt.Sig("stop", "chain-saved")
	verifrt.Assert(k2.node.blocks.LastHeight() == tip && *k2.node.blocks.LastHash() == tipHash, "C19.stop.chain-is-saved")
	mine, _ := node.txs.GetUnconfirmed(ctx)
	node.txs.ReleaseUnconfirmed(ctx)
	theirs, _ := k2.node.txs.GetUnconfirmed(ctx)
	k2.node.txs.ReleaseUnconfirmed(ctx)
	same := len(mine) == len(theirs)
	for _, a := range mine {
		found := false
		for _, b := range theirs {
			if a == b {
				found = true
			}
		}
		same = same && found
	}
	verifrt.Sig("stop", "unconfirmed-saved")
	verifrt.Assert(same, "C19.stop.unconfirmed-transactions-are-saved")
	verifrt.Sig("stop", "peers-saved")
	verifrt.Assert(k2.node.peers.Count() == node.peers.Count(), "C19.stop.peer-data-is-saved")
	// blocks are announced to handlers once, in order, across the reconnection
	last := 0
	for _, e := range w.rec.events {
		if e.kind == "headers" {
			verifrt.Sig("headers", "re-announced")
			verifrt.Assert(e.height == last+1, "C19.reconnect.no-block-announced-twice-or-skipped")
			last = e.height
		}
	}
	if stopAt >= 20 && dropAt >= 0 && dropAt <= 8 {
		verifrt.Sig("reconnect", "resumed")
		verifrt.Assert(tip == 4, "C19.reconnect.resumes-and-follows-the-peer")
		verifrt.Reach("C19.reconnect.resumed")
	}
	verifrt.Reach("C19.stop.done")
}

// VerifHarness_C19_failed_start: the run loop has already returned because the stored data could
// not be loaded; a stop request (the daemon's signal handler calls Stop regardless) still returns.
func VerifHarness_C19_failed_start() {
	verifrt.Goroutines()
	ctx := context.Background()
	w, store, cfg := c19NewWorld(ctx)
	if w.ln != nil {
		defer w.ln.Close()
	}
	// a header file whose size is not a whole number of headers
	store.Write(ctx, "spynode/blocks/00000000", []byte{1, 2, 3, 4, 5, 6, 7}, nil)
	w.newNode(cfg, store)
	node := w.node
	w.connectPeer()
	runDone, stopDone := false, false
	var runErr error
	var mu sync.Mutex
	go func() {
		err := node.Run(ctx)
		mu.Lock()
		runErr, runDone = err, true
		mu.Unlock()
	}()
	for i := 0; i < 5; i++ {
		w.tick(100 * time.Millisecond)
	}
	mu.Lock()
	verifrt.Sig("failed-start", "run")
	verifrt.Assert(runDone && runErr != nil, "C19.failed-start.run-returns-the-load-error")
	mu.Unlock()
	retried := verifrt.Choose("run-retried-after-the-storage-was-repaired", 2) == 1
	run2Done := false
	if retried {
		// the operator repairs the storage and the application runs the same node again
		store.Remove(ctx, "spynode/blocks/00000000")
		go func() {
			node.Run(ctx)
			mu.Lock()
			run2Done = true
			mu.Unlock()
		}()
		for i := 0; i < 10; i++ {
			w.tick(100 * time.Millisecond)
		}
		verifrt.Reach("C19.failed-start.retried")
	}
	go func() {
		node.Stop(ctx)
		mu.Lock()
		stopDone = true
		mu.Unlock()
	}()
	for i := 0; i < 50; i++ {
		w.tick(100 * time.Millisecond)
		mu.Lock()
		s := stopDone
		mu.Unlock()
		if s {
			break
		}
	}
	mu.Lock()
	verifrt.Sig("failed-start", "stop")
	verifrt.Assert(stopDone, "C19.failed-start.stop-returns")
	if retried {
		// ... and it returns because the run loop has returned, not because of the earlier failure
		verifrt.Sig("failed-start", "second-run")
		verifrt.Assert(run2Done, "C19.stop.run-loop-has-returned-when-stop-returns")
	}
	mu.Unlock()
	verifrt.Reach("C19.failed-start.done")
}

// VerifHarness_C19_failed_tx: the node is in sync; the trusted peer relays a transaction that matches
// the subscriptions and whose spent outputs the full node behind the output fetcher cannot find - it
// takes half a second to say so - followed by a burst of further transactions that fills the queue
// to the transaction processor (capacity 2 here through a source rewrite, 100 in Run: the same
// code path).  The processor gives up with an error and asks the node to stop.  From that state,
// too, a stop request returns within a bounded time.
func VerifHarness_C19_failed_tx() {
	verifrt.Goroutines()
	ctx := context.Background()
	w, store, cfg := c19NewWorld(ctx)
	if w.ln != nil {
		defer w.ln.Close()
	}
	w.newNode(cfg, store)
	node := w.node
	w.connectPeer()
	runDone, stopDone := false, false
	var mu sync.Mutex
	go func() {
		node.Run(ctx)
		mu.Lock()
		runDone = true
		mu.Unlock()
	}()
	for tick := 0; tick < 30 && !node.state.IsReady(); tick++ {
		w.tick(100 * time.Millisecond)
	}
	verifrt.Assert(node.state.IsReady(), "C19.failed-tx.in-sync")
	w.fetcher.strict = true
	w.fetcher.delay = 500 * time.Millisecond
	bogus := wire.NewMsgTx(1)
	var nowhere bitcoin.Hash32
	nowhere[0] = 0x77
	bogus.AddTxIn(wire.NewTxIn(wire.NewOutPoint(&nowhere, 0), bitcoin.Script{0x01, 0x01}))
	bogus.AddTxOut(wire.NewTxOut(1, vkRelevantScript()))
	w.link.toNode(bogus)
	burst := 2 + verifrt.Choose("burst", 4) // 2..5 further transactions
	for i := 0; i < burst; i++ {
		w.link.toNode(vkTx(30+i, []int{8 + i}, false))
	}
	for tick := 0; tick < 10; tick++ { // one second: the fetch has failed by now
		w.tick(100 * time.Millisecond)
	}
	stopRequested := verifrt.NowNanos()
	go func() {
		node.Stop(ctx)
		mu.Lock()
		stopDone = true
		mu.Unlock()
	}()
	returnedAfter := int64(-1)
	for tick := 0; tick < 80; tick++ {
		w.tick(100 * time.Millisecond)
		mu.Lock()
		s := stopDone
		mu.Unlock()
		if s {
			returnedAfter = verifrt.NowNanos() - stopRequested
			break
		}
	}
	mu.Lock()
	r := runDone
	mu.Unlock()
	verifrt.Sig("failed-tx", burst, "stop")
	verifrt.Assert(returnedAfter >= 0 && returnedAfter <= int64(5*time.Second), "C19.stop.returns-within-bounded-time")
	verifrt.Sig("failed-tx", burst, "run")
	verifrt.Assert(r, "C19.stop.run-loop-has-returned-when-stop-returns")
	verifrt.Reach("C19.failed-tx.done")
}

// VerifHarness_C19_stop_after_loss: phases tied to what has happened rather than to the clock - the
// node gets in sync; a relevant unconfirmed transaction is announced and delivered to the handlers
// (no block follows, so it is only in memory); the trusted connection is lost; Stop is requested k
// ticks later (while the node tears the connection down, waits to retry, or reconnects).  Stop
// returns in bounded time and a new node on the same storage still tracks that transaction.
func VerifHarness_C19_stop_after_loss() {
	verifrt.Goroutines()
	ctx := context.Background()
	w, store, cfg := c19NewWorld(ctx)
	if w.ln != nil {
		defer w.ln.Close()
	}
	w.newNode(cfg, store)
	node := w.node
	w.connectPeer()
	runDone, stopDone := false, false
	var mu sync.Mutex
	go func() {
		node.Run(ctx)
		mu.Lock()
		runDone = true
		mu.Unlock()
	}()
	for tick := 0; tick < 40 && !node.state.IsReady(); tick++ {
		w.tick(100 * time.Millisecond)
	}
	verifrt.Assert(node.state.IsReady(), "C19.stop-after-loss.in-sync")
	unconf := vkTx(9, []int{5}, true)
	w.announceTx(unconf)
	delivered := func() bool {
		for _, e := range w.rec.events {
			if e.kind == "tx" && e.txid == *unconf.TxHash() {
				return true
			}
		}
		return false
	}
	for tick := 0; tick < 30 && !delivered(); tick++ {
		w.tick(100 * time.Millisecond)
	}
	verifrt.Assert(delivered(), "C19.stop-after-loss.tx-delivered")
	w.link.hangUp()
	w.connectPeer() // the peer is there again for the node's next attempt
	// (at least one tick: a Stop in the very instant of the loss races with the read loop noticing
	// it, which the native replay cannot reproduce reliably; C19_stop covers that instant)
	for k := 1 + verifrt.Choose("stop-ticks-after-the-loss", 7); k > 0; k-- {
		w.tick(100 * time.Millisecond)
	}
	stopRequested := verifrt.NowNanos()
	go func() {
		node.Stop(ctx)
		mu.Lock()
		stopDone = true
		mu.Unlock()
	}()
	returnedAfter := int64(-1)
	for tick := 0; tick < 80; tick++ {
		w.tick(100 * time.Millisecond)
		mu.Lock()
		s := stopDone
		mu.Unlock()
		if s {
			returnedAfter = verifrt.NowNanos() - stopRequested
			break
		}
	}
	mu.Lock()
	r := runDone
	mu.Unlock()
	verifrt.Sig("stop-after-loss", "stop")
	verifrt.Assert(returnedAfter >= 0 && returnedAfter <= int64(5*time.Second), "C19.stop.returns-within-bounded-time")
	verifrt.Sig("stop-after-loss", "run")
	verifrt.Assert(r, "C19.stop.run-loop-has-returned-when-stop-returns")
	k2, lerr := vkNewNode(ctx, store)
	verifrt.Sig("stop-after-loss", "load")
	verifrt.Assert(lerr == nil, "C19.stop.saved-state-loads")
	if lerr != nil {
		return
	}
	theirs, _ := k2.node.txs.GetUnconfirmed(ctx)
	k2.node.txs.ReleaseUnconfirmed(ctx)
	tracked := false
	for _, id := range theirs {
		if id == *unconf.TxHash() {
			tracked = true
		}
	}
	verifrt.Sig("stop-after-loss", "unconfirmed-saved")
	verifrt.Assert(tracked, "C19.stop.unconfirmed-transactions-are-saved")
	verifrt.Reach("C19.stop-after-loss.done")
}

// VerifHarness_C19_stop_while_processing: the node is in sync and the trusted peer relays n
// transactions that match the subscriptions; the full node behind the output fetcher takes half a
// second per transaction, so the transaction processor has up to two seconds of work queued when
// Stop is requested 0..300 ms later.  Stop returns in bounded time, the run loop has returned by
// then, no handler is invoked after Stop has returned (the processing threads have finished, not
// been left behind), and a new node on the same storage tracks what the stopped node tracked.
func VerifHarness_C19_stop_while_processing() {
	verifrt.Goroutines()
	ctx := context.Background()
	w, store, cfg := c19NewWorld(ctx)
	if w.ln != nil {
		defer w.ln.Close()
	}
	w.newNode(cfg, store)
	node := w.node
	w.connectPeer()
	runDone, stopDone := false, false
	var mu sync.Mutex
	go func() {
		node.Run(ctx)
		mu.Lock()
		runDone = true
		mu.Unlock()
	}()
	for tick := 0; tick < 30 && !node.state.IsReady(); tick++ {
		w.tick(100 * time.Millisecond)
	}
	verifrt.Assert(node.state.IsReady(), "C19.stop-while-processing.in-sync")
	// between two transactions the processor holds no lock: the other threads (the delay checker,
	// which waits for the processor's lock and is one of the threads the shutdown waits for first)
	// get to run there; run-to-block scheduling alone would let the processor keep the lock to itself
	vkInterleave = func(point string) { verifrt.Yield() }
	defer func() { vkInterleave = nil }()
	w.fetcher.delay = 500 * time.Millisecond
	n := 2 + verifrt.Choose("relevant-transactions", 3) // 2..4
	for i := 0; i < n; i++ {
		w.link.toNode(vkTx(40+i, []int{8 + i}, true))
	}
	for k := verifrt.Choose("stop-ticks-after-the-burst", 4); k > 0; k-- {
		w.tick(100 * time.Millisecond)
	}
	stopRequested := verifrt.NowNanos()
	go func() {
		node.Stop(ctx)
		mu.Lock()
		stopDone = true
		mu.Unlock()
	}()
	returnedAfter := int64(-1)
	eventsAtStop := 0
	for tick := 0; tick < 80; tick++ {
		w.tick(100 * time.Millisecond)
		mu.Lock()
		s := stopDone
		mu.Unlock()
		if s {
			returnedAfter = verifrt.NowNanos() - stopRequested
			eventsAtStop = len(w.rec.events)
			break
		}
	}
	verifrt.Sig("stop-while-processing", n, "stop")
	verifrt.Assert(returnedAfter >= 0 && returnedAfter <= int64(5*time.Second), "C19.stop.returns-within-bounded-time")
	if returnedAfter < 0 {
		return
	}
	mu.Lock()
	r := runDone
	mu.Unlock()
	verifrt.Sig("stop-while-processing", n, "run")
	verifrt.Assert(r, "C19.stop.run-loop-has-returned-when-stop-returns")
	// what the stopped node tracks now, and what it saved
	mine, _ := node.txs.GetUnconfirmed(ctx)
	node.txs.ReleaseUnconfirmed(ctx)
	for tick := 0; tick < 25; tick++ {
		w.tick(100 * time.Millisecond)
	}
	verifrt.Sig("stop-while-processing", n, "silence")
	verifrt.Assert(len(w.rec.events) == eventsAtStop, "C19.stop.no-handler-invoked-after-stop-returns")
	k2, lerr := vkNewNode(ctx, store)
	verifrt.Sig("stop-while-processing", n, "load")
	verifrt.Assert(lerr == nil, "C19.stop.saved-state-loads")
	if lerr != nil {
		return
	}
	later, _ := node.txs.GetUnconfirmed(ctx)
	node.txs.ReleaseUnconfirmed(ctx)
	theirs, _ := k2.node.txs.GetUnconfirmed(ctx)
	k2.node.txs.ReleaseUnconfirmed(ctx)
	same := len(mine) == len(theirs) && len(later) == len(mine)
	for _, a := range later {
		found := false
		for _, b := range theirs {
			if a == b {
				found = true
			}
		}
		same = same && found
	}
	verifrt.Sig("stop-while-processing", n, "unconfirmed-saved")
	verifrt.Assert(same, "C19.stop.unconfirmed-transactions-are-saved")
	if len(mine) > 0 {
		verifrt.Reach("C19.stop-while-processing.tracked")
	}
	verifrt.Reach("C19.stop-while-processing.done")
}
