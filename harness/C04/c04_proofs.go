//verif:pkg internal/spynode
//verif:kit memstore nodekit synckit worldkit interleave
package spynode

// C04 — merkle proofs on confirmations; bad-merkle blocks are refused.

import (
	"context"
	"crypto/sha256"
	"time"

	"github.com/tokenized/pkg/bitcoin"
	"github.com/tokenized/pkg/wire"
	"github.com/tokenized/spynode/internal/handlers"
	"github.com/tokenized/spynode/pkg/client"

	"github.com/tokenized/spynode/internal/verifrt"
)

func c04Pair(a, b bitcoin.Hash32) bitcoin.Hash32 {
	s := sha256.New()
	s.Write(a[:])
	s.Write(b[:])
	return bitcoin.Hash32(sha256.Sum256(s.Sum(nil)))
}

// c04Tree computes, independently of the code under test, the merkle root of
// the txid list and the sibling of position idx at every level (a node
// without a right neighbour is paired with itself).
func c04Tree(txids []bitcoin.Hash32, idx int) (root bitcoin.Hash32, siblings []bitcoin.Hash32, selfDup []bool) {
	level := append([]bitcoin.Hash32(nil), txids...)
	if len(level) == 1 {
		return level[0], nil, nil
	}
	for len(level) > 1 {
		if idx%2 == 0 {
			if idx+1 < len(level) {
				siblings = append(siblings, level[idx+1])
				selfDup = append(selfDup, false)
			} else {
				siblings = append(siblings, level[idx])
				selfDup = append(selfDup, true)
			}
		} else {
			siblings = append(siblings, level[idx-1])
			selfDup = append(selfDup, false)
		}
		var next []bitcoin.Hash32
		for i := 0; i < len(level); i += 2 {
			if i+1 < len(level) {
				next = append(next, c04Pair(level[i], level[i+1]))
			} else {
				next = append(next, c04Pair(level[i], level[i]))
			}
		}
		level = next
		idx /= 2
	}
	return level[0], siblings, selfDup
}

// c04Verify folds a delivered proof the way any verifier would.
func c04Verify(p *client.MerkleProof, txid bitcoin.Hash32) (bitcoin.Hash32, int) {
	hash := txid
	idx := p.Index
	path := p.Path
	dups := p.DuplicatedIndexes
	levels := 0
	for layer := uint64(1); ; layer++ {
		var other bitcoin.Hash32
		if len(dups) > 0 && dups[0] == layer {
			other = hash
			dups = dups[1:]
		} else if len(path) > 0 {
			other = path[0]
			path = path[1:]
		} else {
			break
		}
		if idx%2 == 0 {
			hash = c04Pair(hash, other)
		} else {
			hash = c04Pair(other, hash)
		}
		idx /= 2
		levels++
	}
	return hash, levels
}

func VerifHarness_C04_proofs() {
	ctx := context.Background()
	maxTxs := 5
	if verifrt.Thorough() {
		maxTxs = 9
	}
	k, err := vkNewNode(ctx, nil)
	verifrt.Assert(err == nil, "C04.kit.node-loads")
	node, rec := k.node, k.rec
	node.state.SetInSync()

	n := 1 + verifrt.Choose("block-txs", maxTxs) // including the coinbase
	// at most two relevant positions among the non-coinbase transactions
	relA, relB := -1, -1
	if n > 1 {
		relA = verifrt.Choose("relevant.a", n) // 0: none (the coinbase is never relevant)
		relB = verifrt.Choose("relevant.b", n)
	}
	var txs []*wire.MsgTx
	var rel []bool
	for i := 1; i < n; i++ {
		r := i == relA || i == relB
		txs = append(txs, vkTx(40+i, []int{10 + i}, r))
		rel = append(rel, r)
	}
	// some relevant transactions were already delivered while unconfirmed
	seen := make([]bool, len(txs))
	for i := range txs {
		if rel[i] && verifrt.Choose("seen-unconfirmed", 2) == 1 {
			seen[i] = true
			perr := node.processUnconfirmedTx(ctx, handlers.TxData{Msg: txs[i], Trusted: true, ConfirmedHeight: -1})
			verifrt.Assert(perr == nil, "C04.unconfirmed.processed")
		}
	}
	mark := len(rec.events)
	block := vkBlock(*node.blocks.LastHash(), 1, txs)
	header := block.Header
	var honest []bitcoin.Hash32
	for _, tx := range block.Transactions {
		honest = append(honest, *tx.TxHash())
	}

	// corruption of the body under an unchanged header
	corruption := verifrt.Choose("corruption", 6)
	switch corruption {
	case 1: // drop a transaction
		if n > 1 {
			i := verifrt.Choose("corrupt.at", n)
			block.Transactions = append(append([]*wire.MsgTx{}, block.Transactions[:i]...), block.Transactions[i+1:]...)
		}
	case 2: // duplicate a transaction
		i := verifrt.Choose("corrupt.at", n)
		dup := append([]*wire.MsgTx{}, block.Transactions[:i+1]...)
		dup = append(dup, block.Transactions[i])
		block.Transactions = append(dup, block.Transactions[i+1:]...)
	case 3: // swap two transactions
		if n > 1 {
			i := verifrt.Choose("corrupt.at", n-1)
			cp := append([]*wire.MsgTx{}, block.Transactions...)
			cp[i], cp[i+1] = cp[i+1], cp[i]
			block.Transactions = cp
		}
	case 4: // alter a transaction
		i := verifrt.Choose("corrupt.at", n)
		cp := append([]*wire.MsgTx{}, block.Transactions...)
		altered := cp[i].Copy()
		altered.LockTime += 1000
		cp[i] = &altered
		block.Transactions = cp
	case 5: // extra transaction appended
		block.Transactions = append(append([]*wire.MsgTx{}, block.Transactions...), vkTx(99, []int{60}, true))
	}
	var actual []bitcoin.Hash32
	for _, tx := range block.Transactions {
		actual = append(actual, *tx.TxHash())
	}
	actualRoot, _, _ := c04Tree(actual, 0)
	bad := actualRoot != header.MerkleRoot
	// a mutated body that still hashes to the header's root (duplicated tail, CVE-2012-2459 shape)
	// is not "bad-merkle" by the statement; the first sentence still binds: if the node processes
	// it, every notification carries a proof that verifies at an index where that txid really is
	sameRoot := corruption != 0 && !bad
	heightBefore := node.blocks.LastHeight()

	var berr error
	panicked, what := verifrt.Catch(func() { berr = node.ProcessBlock(ctx, block) })
	verifrt.Note("ProcessBlock(%d txs, corruption %d, bad=%v): panic=%v %s err=%v", len(block.Transactions), corruption, bad, panicked, what, berr)
	verifrt.Sig("ProcessBlock", "panic")
	verifrt.Assert(!panicked, "C04.block.no-panic")
	if panicked {
		return
	}
	if bad {
		verifrt.Sig("bad-merkle", "accepted")
		verifrt.Assert(berr != nil, "C04.bad-merkle.block-is-refused")
		verifrt.Sig("bad-merkle", "height")
		verifrt.Assert(node.blocks.LastHeight() == heightBefore, "C04.bad-merkle.never-added-to-the-chain")
		for _, e := range rec.events[mark:] {
			verifrt.Sig("bad-merkle", "delivery")
			verifrt.Assert(e.kind != "tx" && e.kind != "update", "C04.bad-merkle.none-of-its-transactions-delivered")
		}
		verifrt.Reach("C04.bad-merkle.refused")
		verifrt.Reach("C04.proofs.done")
		return
	}
	if sameRoot {
		verifrt.Reach("C04.same-root-mutation.checked")
		if berr != nil {
			// refusing the mutated body is fine, if it is refused cleanly
			verifrt.Sig("same-root", "refused", "height")
			verifrt.Assert(node.blocks.LastHeight() == heightBefore, "C04.same-root-mutation.refused-body-not-added")
			for _, e := range rec.events[mark:] {
				verifrt.Sig("same-root", "refused", "delivery")
				verifrt.Assert(e.kind != "tx" && e.kind != "update", "C04.same-root-mutation.refused-body-not-delivered")
			}
			return
		}
		stored, herr := node.blocks.Header(ctx, heightBefore+1)
		verifrt.Assert(herr == nil && stored != nil, "C04.block.header-stored")
		for _, e := range rec.events[mark:] {
			if e.kind != "tx" && e.kind != "update" {
				continue
			}
			verifrt.Sig("same-root", "proof-present")
			verifrt.Assert(e.state.MerkleProof != nil, "C04.same-root-mutation.notification-carries-a-proof")
			if e.state.MerkleProof == nil {
				continue
			}
			p := e.state.MerkleProof
			at := int(p.Index)
			verifrt.Sig("same-root", "index")
			verifrt.Assert(at >= 0 && at < len(actual) && actual[at] == e.txid, "C04.same-root-mutation.index-is-a-position-of-that-tx")
			root, _ := c04Verify(p, e.txid)
			verifrt.Sig("same-root", "verifier")
			verifrt.Assert(p.IsValid(e.txid) == nil && root == stored.MerkleRoot, "C04.same-root-mutation.proof-verifies")
		}
		return
	}
	verifrt.Sig("ProcessBlock", "err")
	verifrt.Assert(berr == nil, "C04.block.processed")
	if berr != nil {
		return
	}
	stored, herr := node.blocks.Header(ctx, heightBefore+1)
	verifrt.Assert(herr == nil && stored != nil, "C04.block.header-stored")
	// every relevant transaction of the (possibly re-ordered but same-root) body gets one notification with a proof
	for pos, tx := range block.Transactions {
		txid := *tx.TxHash()
		if !node.IsRelevant(ctx, tx) {
			continue
		}
		wasSeen := false
		for i := range txs {
			if seen[i] && *txs[i].TxHash() == txid {
				wasSeen = true
			}
		}
		var got []vkEvent
		for _, e := range rec.events[mark:] {
			if e.txid == txid && (e.kind == "tx" || e.kind == "update") {
				got = append(got, e)
			}
		}
		verifrt.Sig("confirmation", "count")
		verifrt.Assert(len(got) == 1, "C04.confirmation.one-notification-per-relevant-tx")
		if len(got) != 1 {
			continue
		}
		e := got[0]
		verifrt.Sig("confirmation", "kind")
		verifrt.Assert((e.kind == "update") == wasSeen, "C04.confirmation.new-tx-if-first-seen-else-update")
		verifrt.Sig("confirmation", "proof-present")
		verifrt.Assert(e.state.MerkleProof != nil, "C04.confirmation.carries-a-proof")
		if e.state.MerkleProof == nil {
			continue
		}
		p := e.state.MerkleProof
		verifrt.Sig("confirmation", "depth")
		verifrt.Assert(e.state.UnconfirmedDepth == 0, "C04.confirmation.unconfirmed-depth-zero")
		verifrt.Sig("confirmation", "index")
		verifrt.Assert(int(p.Index) == pos, "C04.proof.true-index-in-block")
		verifrt.Sig("confirmation", "header")
		verifrt.Assert(p.BlockHeader == *stored, "C04.proof.header-is-the-stored-header")
		verifrt.Sig("confirmation", "client-verifier")
		verifrt.Assert(p.IsValid(txid) == nil, "C04.proof.client-verifier-accepts")
		root, levels := c04Verify(p, txid)
		wantRoot, sibs, _ := c04Tree(actual, pos)
		verifrt.Sig("confirmation", "independent-verifier")
		verifrt.Assert(root == stored.MerkleRoot && root == wantRoot, "C04.proof.independent-verifier-accepts")
		verifrt.Sig("confirmation", "levels")
		verifrt.Assert(levels == len(sibs), "C04.proof.one-step-per-tree-level")
		verifrt.Reach("C04.proof.checked")
	}
	// irrelevant transactions are never delivered
	for _, e := range rec.events[mark:] {
		if e.kind != "tx" && e.kind != "update" {
			continue
		}
		isRel := false
		for i := range txs {
			if rel[i] && *txs[i].TxHash() == e.txid {
				isRel = true
			}
		}
		verifrt.Sig("confirmation", "irrelevant")
		verifrt.Assert(isRel, "C04.confirmation.only-relevant-txs")
	}
	verifrt.Reach("C04.proofs.done")
}


// VerifHarness_C04_race: the body of a relevant transaction is being processed by the
// transaction-processing goroutine when the block that contains it is processed by the block
// processor: at the interleaving point inside processUnconfirmedTx (after the mempool has recorded
// the transaction, before the relevance filter and the unconfirmed repository) the whole
// ProcessBlock runs.  Whatever the order, the transaction is included in a processed block, so a
// notification for it must carry a merkle proof.
func VerifHarness_C04_race() {
	ctx := context.Background()
	k, err := vkNewNode(ctx, nil)
	verifrt.Assert(err == nil, "C04.kit.node-loads")
	node, rec := k.node, k.rec
	node.state.SetInSync()
	t := vkTx(45, []int{11}, true)
	other := vkTx(46, []int{12}, verifrt.Choose("other.relevant", 2) == 1)
	txid := *t.TxHash()
	block := vkBlock(*node.blocks.LastHash(), 1, []*wire.MsgTx{other, t})
	processed := false
	var berr error
	order := verifrt.Choose("order", 3) // 0: tx fully first, 1: block first, 2: block at the interleaving point
	serialised := false
	vkInterleave = func(point string) {
		if order == 2 && !processed {
			// the block processor is scheduled here; if it has to wait for a lock the transaction
			// step holds, it runs after that step instead
			serialised = verifrt.RunUntilBlocked(func() {
				berr = node.ProcessBlock(ctx, block)
				processed = true
			})
			verifrt.Reach("C04.race.interleaved")
		}
	}
	defer func() { vkInterleave = nil }()
	if order == 1 {
		processed = true
		berr = node.ProcessBlock(ctx, block)
	}
	perr := node.processUnconfirmedTx(ctx, handlers.TxData{Msg: t, Trusted: true, ConfirmedHeight: -1})
	vkInterleave = nil
	if serialised && !verifrt.Symbolic() {
		time.Sleep(150 * time.Millisecond) // natively the waiting block processor proceeds by itself
	}
	if !processed {
		berr = node.ProcessBlock(ctx, block)
	}
	verifrt.Sig("race", order, "errors")
	verifrt.Assert(perr == nil && berr == nil, "C04.race.both-steps-succeed")
	news, withProof := 0, 0
	for _, e := range rec.events {
		if e.txid != txid {
			continue
		}
		if e.kind == "tx" {
			news++
		}
		if (e.kind == "tx" || e.kind == "update") && e.hasProof {
			withProof++
			p := e.state.MerkleProof
			verifrt.Sig("race", order, "proof")
			verifrt.Assert(p.IsValid(txid) == nil && int(p.Index) == 2 && e.state.UnconfirmedDepth == 0, "C04.race.proof-is-valid")
		}
	}
	verifrt.Sig("race", order, "new")
	verifrt.Assert(news == 1, "C04.race.delivered-as-new-exactly-once")
	verifrt.Sig("race", order, "confirmation")
	verifrt.Assert(withProof >= 1, "C04.race.relevant-tx-of-a-processed-block-gets-a-notification-with-a-proof")
	verifrt.Reach("C04.race.done")
}

// VerifHarness_C04_late_subscription: a transaction reaches the node unconfirmed before the client
// has subscribed to what it pays to (it is filtered out, only the double-spend index knows it);
// the client subscribes; a block with the transaction is processed.  It is a relevant transaction
// included in a processed block: it is delivered (as new - it was never delivered before) with a
// proof that verifies.
func VerifHarness_C04_late_subscription() {
	ctx := context.Background()
	k, err := vkNewNode(ctx, nil)
	verifrt.Assert(err == nil, "C04.kit.node-loads")
	node, rec := k.node, k.rec
	if verifrt.Choose("in-sync", 2) == 1 {
		node.state.SetInSync()
	}
	node.UnsubscribePushDatas(ctx, [][]byte{vkSubscribed()})
	t := vkTx(45, []int{11}, true)
	txid := *t.TxHash()
	perr := node.processUnconfirmedTx(ctx, handlers.TxData{Msg: t, Trusted: true, ConfirmedHeight: -1})
	verifrt.Assert(perr == nil && len(rec.events) == 0, "C04.late-subscription.filtered-out-at-first")
	node.SubscribePushDatas(ctx, [][]byte{vkSubscribed()})
	other := vkTx(46, []int{12}, false)
	block := vkBlock(*node.blocks.LastHash(), 1, []*wire.MsgTx{other, t})
	berr := node.ProcessBlock(ctx, block)
	verifrt.Assert(berr == nil, "C04.block.processed")
	var got []vkEvent
	for _, e := range rec.events {
		if e.txid == txid && (e.kind == "tx" || e.kind == "update") {
			got = append(got, e)
		}
	}
	verifrt.Sig("late-subscription", "delivered")
	verifrt.Assert(len(got) == 1 && got[0].kind == "tx", "C04.late-subscription.relevant-tx-of-a-processed-block-is-delivered")
	if len(got) == 1 {
		verifrt.Sig("late-subscription", "proof")
		p := got[0].state.MerkleProof
		verifrt.Assert(p != nil && p.IsValid(txid) == nil && int(p.Index) == 2 && got[0].state.UnconfirmedDepth == 0, "C04.late-subscription.with-a-valid-proof")
	}
	verifrt.Reach("C04.late-subscription.done")
}

// VerifHarness_C04_reorg: a relevant transaction confirmed in block a1; the peer reorganises to
// b1-b2 with b1 confirming it again; in between (after the revert, before b1 is processed) the
// transaction may be announced again as unconfirmed.  Whatever kind the re-confirmation's
// notification has, it carries a proof for the block the node holds at that height now.
func VerifHarness_C04_reorg() {
	ctx := context.Background()
	k, err := vkNewNode(ctx, nil)
	verifrt.Assert(err == nil, "C04.kit.node-loads")
	k.node.state.SetVersionReceived()
	k.node.state.MarkConnected()
	t := vkTx(45, []int{11}, true)
	txid := *t.TxHash()
	tree := vkNewTree(*k.node.blocks.LastHash())
	tree.add("a0", "", nil)
	tree.add("a1", "a0", []*wire.MsgTx{t})
	tree.add("b1", "a0", []*wire.MsgTx{vkTx(46, []int{12}, false), t})
	tree.add("b2", "b1", nil)
	w := &c01World{ctx: ctx, k: k, tree: tree, heard: map[string]bool{}}
	w.peer = vkNewPeer(tree, "a1")
	w.settle(4)
	verifrt.Assert(w.converged() && len(k.rec.of("tx", txid)) == 1, "C04.reorg.first-confirmation-delivered")
	w.peer.setBest("b2")
	w.deliver() // the announcement of the new branch: a1 is reverted, b1 and b2 are requested
	verifrt.Assert(k.node.blocks.LastHeight() == 1, "C04.reorg.reverted")
	mark := len(k.rec.events)
	if verifrt.Choose("announced-again-unconfirmed", 2) == 1 {
		perr := k.node.processUnconfirmedTx(ctx, handlers.TxData{Msg: t, Trusted: true, ConfirmedHeight: -1})
		verifrt.Assert(perr == nil, "C04.unconfirmed.processed")
		verifrt.Reach("C04.reorg.re-announced")
	}
	w.settle(6)
	verifrt.Assert(w.converged(), "C04.reorg.node-follows-the-reorganisation")
	held, herr := k.node.blocks.Header(ctx, 2)
	verifrt.Assert(herr == nil && held != nil && *held.BlockHash() == tree.hashes["b1"], "C04.reorg.b1-held")
	// the notification produced by processing b1
	var last *vkEvent
	for i := range k.rec.events[mark:] {
		e := &k.rec.events[mark+i]
		if e.txid == txid && (e.kind == "tx" || e.kind == "update") && e.hasProof {
			last = e
		}
	}
	verifrt.Sig("reorg", "notified")
	verifrt.Assert(last != nil, "C04.reorg.re-confirmation-is-notified-with-a-proof")
	if last != nil {
		p := last.state.MerkleProof
		verifrt.Sig("reorg", "proof")
		verifrt.Assert(p.BlockHeader == *held && p.IsValid(txid) == nil && int(p.Index) == 2 && last.state.UnconfirmedDepth == 0, "C04.reorg.proof-is-for-the-block-held-at-that-height")
	}
	verifrt.Reach("C04.reorg.done")
}
