//verif:pkg internal/spynode
package spynode

// C08 — subscription filter vs. an independent script walker.

import (
	"context"

	"github.com/tokenized/pkg/bitcoin"
	"github.com/tokenized/pkg/wire"
	"github.com/tokenized/specification/dist/golang/actions"
	"github.com/tokenized/specification/dist/golang/protocol"

	"github.com/tokenized/spynode/internal/verifrt"
)

// c08Pushes is the reference walker: complete data pushes of a script, in
// order, stopping at the first malformed element.  Number pushes (OP_1NEGATE,
// OP_1..OP_16) are outside the statement and excluded by assumption.
func c08Pushes(script []byte) [][]byte {
	var out [][]byte
	i := 0
	for i < len(script) {
		op := script[i]
		i++
		n := 0
		switch {
		case op == 0x00:
			out = append(out, nil) // empty push
			continue
		case op <= 0x4b:
			n = int(op)
		case op == 0x4c: // PUSHDATA1
			if i+1 > len(script) {
				return out
			}
			n = int(script[i])
			i++
		case op == 0x4d: // PUSHDATA2
			if i+2 > len(script) {
				return out
			}
			n = int(script[i]) | int(script[i+1])<<8
			i += 2
		case op == 0x4e: // PUSHDATA4
			if i+4 > len(script) {
				return out
			}
			n = int(script[i]) | int(script[i+1])<<8 | int(script[i+2])<<16 | int(script[i+3])<<24
			i += 4
		default:
			verifrt.Assume(verifrt.Not(verifrt.Or(op == 0x4f, verifrt.And(op >= 0x51, op <= 0x60))))
			continue // not a push
		}
		if n == 0 {
			out = append(out, nil)
			continue
		}
		if n > len(script)-i {
			return out // truncated
		}
		out = append(out, script[i:i+n])
		i += n
	}
	return out
}

// c08NonPush constrains a fragment placed before the 20-byte push to opcodes
// that do not swallow following bytes (empty push or non-push opcodes), so the
// 20 symbolic bytes stay push data.
func c08NonPush(b []byte) []byte {
	for _, x := range b {
		verifrt.Assume(verifrt.Or(x == 0x00, x > 0x60))
	}
	return b
}

func c08Key(push []byte) bitcoin.Hash20 {
	var h bitcoin.Hash20
	if len(push) == 20 {
		copy(h[:], push)
	} else {
		copy(h[:], bitcoin.Hash160(push))
	}
	return h
}

func c08Expected(scripts [][]byte, subs []bitcoin.Hash20) bool {
	match := false
	for _, s := range scripts {
		for _, p := range c08Pushes(s) {
			k := c08Key(p)
			for i := range subs {
				match = verifrt.Or(match, verifrt.BytesEq(k[:], subs[i][:]))
			}
		}
	}
	return match
}

// VerifHarness_C08_match: symbolic scripts against symbolic subscriptions.
func VerifHarness_C08_match() {
	ctx := context.Background()
	maxL, maxFrag := 4, 2
	if verifrt.Thorough() {
		maxL, maxFrag = 6, 2
	}
	node := &Node{}
	nSubs := 2 // two symbolic subscriptions (they may be equal, which covers a single one)
	var subs []bitcoin.Hash20
	for i := 0; i < nSubs; i++ {
		var h bitcoin.Hash20
		copy(h[:], verifrt.Bytes("sub", 20))
		subs = append(subs, h)
	}
	node.pushDataHashes = append(node.pushDataHashes, subs...)

	var out, in []byte
	// the four ways to push 20 bytes: direct, OP_PUSHDATA1, OP_PUSHDATA2, OP_PUSHDATA4
	forms := [][]byte{{0x14}, {0x4c, 0x14}, {0x4d, 0x14, 0x00}, {0x4e, 0x14, 0x00, 0x00, 0x00}}
	switch verifrt.Choose("shape", 3) {
	case 0: // one fully symbolic script, as the output's locking or the input's unlocking script
		sc := verifrt.Bytes("script", verifrt.Choose("script.len", maxL+1))
		if verifrt.Choose("script.where", 2) == 0 {
			out = sc
		} else {
			in = sc
		}
	case 1: // a 20-byte push (any of the four push forms) between short symbolic fragments, in the output
		pre := c08NonPush(verifrt.Bytes("out.pre", verifrt.Choose("out.pre.len", maxFrag+1)))
		post := verifrt.Bytes("out.post", verifrt.Choose("out.post.len", maxFrag+1))
		form := forms[verifrt.Choose("out.push-form", len(forms))]
		out = append(append(append(pre, form...), verifrt.Bytes("out.push20", 20)...), post...)
	case 2: // the same in the unlocking script of an input
		pre := c08NonPush(verifrt.Bytes("in.pre", verifrt.Choose("in.pre.len", maxFrag+1)))
		post := verifrt.Bytes("in.post", verifrt.Choose("in.post.len", maxFrag+1))
		form := forms[verifrt.Choose("in.push-form", len(forms))]
		in = append(append(append(pre, form...), verifrt.Bytes("in.push20", 20)...), post...)
	}
	tx := wire.NewMsgTx(1)
	var prev bitcoin.Hash32
	prev[0] = 8
	_ = c08NonPush
	op := wire.OutPoint{Hash: prev, Index: 0}
	tx.AddTxIn(wire.NewTxIn(&op, bitcoin.Script(in)))
	tx.AddTxOut(wire.NewTxOut(1, bitcoin.Script(out)))

	want := c08Expected([][]byte{out, in}, subs)
	var got bool
	panicked, what := verifrt.Catch(func() { got = node.IsRelevant(ctx, tx) })
	verifrt.Note("IsRelevant: panic=%v %s got=%v out=%x in=%x", panicked, what, got, out, in)
	verifrt.Sig("IsRelevant", "panic")
	verifrt.Assert(!panicked, "C08.filter.malformed-script-never-crashes")
	if panicked {
		return
	}
	if got {
		verifrt.Sig("IsRelevant", "false-positive")
		verifrt.Assert(want, "C08.filter.relevant-only-if-a-push-matches")
		verifrt.Reach("C08.match.relevant")
	} else {
		verifrt.Sig("IsRelevant", "false-negative")
		verifrt.Assert(verifrt.Not(want), "C08.filter.every-matching-push-is-relevant")
		verifrt.Reach("C08.match.irrelevant")
	}
	verifrt.Reach("C08.match.done")
}

// VerifHarness_C08_subscriptions: subscribe / unsubscribe sequences over raw
// data and its hash.
func VerifHarness_C08_subscriptions() {
	ctx := context.Background()
	nOps := 3
	if verifrt.Thorough() {
		nOps = 5
	}
	node := &Node{}
	d20 := make([]byte, 20)
	for i := range d20 {
		d20[i] = byte(0xa0 + i)
	}
	d3 := []byte{1, 2, 3}
	h3 := bitcoin.Hash160(d3)
	d5 := []byte{9, 8, 7, 6, 5}
	forms := [][]byte{d20, d3, h3, d5}
	keyOf := []int{0, 1, 1, 2} // d3 and Hash160(d3) are the same subscription
	counts := []int{0, 0, 0}
	steps := []string{"s0", "s1", "s2", "s3", "s4"}
	for s := 0; s < nOps; s++ {
		f := verifrt.Choose(steps[s]+".data", len(forms))
		if verifrt.Choose(steps[s]+".op", 2) == 0 {
			err := node.SubscribePushDatas(ctx, [][]byte{forms[f]})
			verifrt.Assert(err == nil, "C08.subscribe.ok")
			counts[keyOf[f]]++
		} else {
			err := node.UnsubscribePushDatas(ctx, [][]byte{forms[f]})
			verifrt.Assert(err == nil, "C08.unsubscribe.ok")
			if counts[keyOf[f]] > 0 {
				counts[keyOf[f]]--
			}
		}
		// the stored multiset equals the reference multiset
		keys := []bitcoin.Hash20{c08Key(d20), c08Key(d3), c08Key(d5)}
		total := 0
		for k := range keys {
			n := 0
			for _, h := range node.pushDataHashes {
				if h == keys[k] {
					n++
				}
			}
			verifrt.Sig("subscriptions", "multiset")
			verifrt.Assert(n == counts[k], "C08.subscriptions.unsubscribe-removes-exactly-what-subscribe-added")
			total += n
		}
		verifrt.Sig("subscriptions", "stray")
		verifrt.Assert(total == len(node.pushDataHashes), "C08.subscriptions.no-stray-entries")
		// filter agrees: a tx pushing d3 is relevant iff d3 (in either form) is subscribed
		for k, data := range [][]byte{d20, d3, d5} {
			tx := wire.NewMsgTx(1)
			script := append([]byte{byte(len(data))}, data...)
			tx.AddTxOut(wire.NewTxOut(1, bitcoin.Script(script)))
			verifrt.Sig("subscriptions", "filter")
			verifrt.Assert(node.IsRelevant(ctx, tx) == (counts[k] > 0), "C08.subscriptions.raw-and-hash-forms-equivalent")
		}
	}
	verifrt.Reach("C08.subscriptions.done")
}

// c08ActionScript returns an output script carrying a Tokenized action of the
// given kind ('C' contract formation, 'I' instrument creation, 'T' transfer).
// Natively it is a real envelope built by the protocol package; inside the
// engine it is a marker the classifier model recognises.
func c08ActionScript(kind byte) []byte {
	if verifrt.Symbolic() {
		return append([]byte("\x6a\x02\xbd\x01VERIF"), kind, 0x00)
	}
	var a actions.Action
	switch kind {
	case 'C':
		a = &actions.ContractFormation{ContractName: "verif"}
	case 'I':
		a = &actions.InstrumentCreation{InstrumentCode: make([]byte, 20)}
	default:
		a = &actions.Transfer{}
	}
	script, err := protocol.Serialize(a, true)
	if err != nil {
		verifrt.Assume(false)
	}
	return script
}

// VerifHarness_C08_contracts: contract-wide detection is wired to the
// subscription flag and to the two contract-wide action kinds only.
func VerifHarness_C08_contracts() {
	ctx := context.Background()
	node := &Node{}
	node.config.IsTest = true
	kinds := []byte{'C', 'I', 'T', 0}
	k := kinds[verifrt.Choose("action", len(kinds))]
	flag := verifrt.Choose("subscribed", 2) == 1
	pos := verifrt.Choose("position", 2)
	tx := wire.NewMsgTx(1)
	other := bitcoin.Script{0x6a, 0x02, 0xbd, 0x01} // OP_RETURN with non-Tokenized data
	var carrier bitcoin.Script = other
	if k != 0 {
		carrier = bitcoin.Script(c08ActionScript(k))
	}
	if pos == 0 {
		tx.AddTxOut(wire.NewTxOut(1, carrier))
		tx.AddTxOut(wire.NewTxOut(1, other))
	} else {
		tx.AddTxOut(wire.NewTxOut(1, other))
		tx.AddTxOut(wire.NewTxOut(1, carrier))
	}
	verifrt.Assert(!node.IsSubscribedToContracts(ctx), "C08.contracts.off-by-default")
	if flag {
		node.SubscribeContracts(ctx)
		verifrt.Assert(node.IsSubscribedToContracts(ctx), "C08.contracts.subscribe-sets-flag")
	} else {
		node.SubscribeContracts(ctx)
		node.UnsubscribeContracts(ctx)
		verifrt.Assert(!node.IsSubscribedToContracts(ctx), "C08.contracts.unsubscribe-clears-flag")
	}
	want := flag && (k == 'C' || k == 'I')
	var got bool
	panicked, what := verifrt.Catch(func() { got = node.IsRelevant(ctx, tx) })
	verifrt.Note("contracts: action %c flag %v position %d: panic=%v %s got=%v", k, flag, pos, panicked, what, got)
	verifrt.Sig("contracts", "panic")
	verifrt.Assert(!panicked, "C08.contracts.no-panic")
	verifrt.Sig("contracts", "wiring")
	verifrt.Assert(got == want, "C08.contracts.relevant-iff-subscribed-and-contract-wide-action")
	verifrt.Reach("C08.contracts.done")
}

// VerifHarness_C08_malformed_envelope: contract subscription on; an output script that starts like
// a Tokenized envelope (OP_FALSE OP_RETURN, the version 1 envelope marker push; version 0 headers are protobuf, which is opaque to the engine) and continues with up to w
// arbitrary bytes, then ends.  Such a script is too short to be a complete envelope, so the real
// decoder (envelope parser of the dependency, run unmodified) has to refuse it; the filter must
// not crash on it and must not call it relevant.
func VerifHarness_C08_malformed_envelope() {
	ctx := context.Background()
	node := &Node{}
	node.config.IsTest = true
	node.SubscribeContracts(ctx)
	w := 3
	if verifrt.Thorough() {
		w = 4
	}
	n := verifrt.Choose("tail.len", w+1)
	heads := [][]byte{
		{0x00, 0x6a, 0x02, 0xbd, 0x01}, // envelope version 1
	}
	head := heads[verifrt.Choose("envelope", len(heads))]
	script := append(append([]byte{}, head...), verifrt.Bytes("tail", n)...)
	if verifrt.Choose("count-is-a-five-byte-number", 2) == 1 {
		// second shape: the item after the marker is a push of five arbitrary bytes (a script number
		// up to 2^39), which the envelope parser takes for the number of protocol ids that follow
		script = append(append(append([]byte{}, head...), 0x05), verifrt.Bytes("count", 5)...)
		verifrt.Reach("C08.malformed-envelope.five-byte-count")
	}
	// what the filter allocates for a script stays in proportion to the script
	verifrt.AllocObligation("C08.contracts.alloc.proportional-to-the-script", 1<<20, 64, len(script))
	tx := wire.NewMsgTx(1)
	tx.AddTxOut(wire.NewTxOut(1, bitcoin.Script(script)))
	var got bool
	panicked, what := verifrt.Catch(func() { got = node.IsRelevant(ctx, tx) })
	verifrt.Note("envelope head %x + %d bytes: panic=%v %s relevant=%v", head, n, panicked, what, got)
	verifrt.Sig("malformed-envelope", verifrt.PanicSite(), what)
	verifrt.Assert(!panicked, "C08.contracts.malformed-envelope-never-crashes-the-filter")
	verifrt.Sig("malformed-envelope", "relevant")
	verifrt.Assert(!got, "C08.contracts.incomplete-envelope-is-not-relevant")
	verifrt.Reach("C08.malformed-envelope.done")
}
