//verif:pkg pkg/client
package client

// C08 — the client's address helpers subscribe what the filter matches: every 20-byte hash of
// every address, not just the last one of a multi-hash address.

import (
	"context"

	"github.com/tokenized/pkg/bitcoin"

	"github.com/tokenized/spynode/internal/verifrt"
)

type c08Subscriber struct{ got [][]byte }

func (s *c08Subscriber) SubscribePushDatas(ctx context.Context, pds [][]byte) error {
	for _, pd := range pds {
		s.got = append(s.got, append([]byte(nil), pd...))
	}
	return nil
}

func c08Hash(i int, b byte) []byte {
	h := make([]byte, 20)
	for j := range h {
		h[j] = b + byte(i*32+j)
	}
	return h
}

// VerifHarness_C08_addresses: a pay-to-public-key-hash address and a k-of-n multi-PKH address with
// n key hashes (symbolic first byte each), through SubscribeAddress and SubscribeAddresses: the
// subscriber is given exactly the hashes of the addresses, each once.
func VerifHarness_C08_addresses() {
	ctx := context.Background()
	n := 2 + verifrt.Choose("multi-pkh.keys", 2) // 2..3
	var pkhs [][]byte
	for i := 0; i < n; i++ {
		pkhs = append(pkhs, c08Hash(i, verifrt.U8("pkh.first-byte")))
	}
	multi, err := bitcoin.NewRawAddressMultiPKH(1, pkhs)
	verifrt.Assume(err == nil)
	single, err := bitcoin.NewRawAddressPKH(c08Hash(7, 0x07))
	verifrt.Assume(err == nil)
	var want [][]byte
	s := &c08Subscriber{}
	switch verifrt.Choose("helper", 2) {
	case 0:
		verifrt.Assert(SubscribeAddress(ctx, multi, s) == nil, "C08.addresses.subscribe-ok")
		want = pkhs
	case 1:
		verifrt.Assert(SubscribeAddresses(ctx, []bitcoin.RawAddress{single, multi}, s) == nil, "C08.addresses.subscribe-ok")
		want = append([][]byte{c08Hash(7, 0x07)}, pkhs...)
	}
	verifrt.Sig("addresses", "count")
	verifrt.Assert(len(s.got) == len(want), "C08.addresses.one-subscription-per-hash")
	for i := range want {
		if i >= len(s.got) {
			break
		}
		verifrt.Sig("addresses", "hash")
		verifrt.Assert(verifrt.BytesEq(s.got[i], want[i]), "C08.addresses.every-hash-of-the-address-is-subscribed")
	}
	verifrt.Reach("C08.addresses.done")
}
