//verif:pkg pkg/client
package client

// C16 — synchronous calls through the real addRequest / sendMessage /
// runRequests code.  The send goroutine and the server are played by the
// harness: inside the engine through the OnBlocked hook (sequential units),
// natively by real goroutines running the same functions.

import (
	"context"
	"time"

	"github.com/pkg/errors"
	"github.com/tokenized/pkg/bitcoin"
	"github.com/tokenized/pkg/wire"

	"github.com/tokenized/spynode/internal/verifrt"
)

type c16Server struct {
	c         *RemoteClient
	ctx       context.Context
	interrupt chan interface{}
	policy    func(req MessagePayload) *Message // nil: the server stays silent
	preface   *Message                          // sent by the server just before its answer (a notification)
	failSends int                               // the next n messages are not written (the connection refuses them)
	written   []MessagePayload
}

func c16NewClient() (*RemoteClient, *c16Server) {
	c := &RemoteClient{
		addRequestsChannel:     make(chan *request, 100),
		removeRequestsChannel:  make(chan *request, 100),
		requestResponseChannel: make(chan *requestResponse, 100),
	}
	c.sendChannel = make(chan *sendMessageRequest, 100)
	c.requestTimeout.Store(200 * time.Millisecond)
	c.messageTimeout.Store(200 * time.Millisecond)
	c.handshakeComplete.Store(true)
	c.accepted.Store(true) // an accepted connection
	c.isReconnecting.Store(false)
	s := &c16Server{c: c, ctx: context.Background(), interrupt: make(chan interface{})}
	return c, s
}

func (s *c16Server) runRequestsUnit() {
	verifrt.RunUntilBlocked(func() { s.c.runRequests(s.ctx, s.interrupt) })
}

// pump is one scheduling round of the other goroutines (symbolic mode).
func (s *c16Server) pump() bool {
	progressed := false
	if len(s.c.addRequestsChannel)+len(s.c.removeRequestsChannel) > 0 {
		s.runRequestsUnit() // the requests goroutine is prompt
		progressed = true
	}
	for len(s.c.sendChannel) > 0 {
		r := <-s.c.sendChannel
		s.handleSend(r)
		progressed = true
	}
	if len(s.c.requestResponseChannel) > 0 {
		s.runRequestsUnit()
		progressed = true
	}
	return progressed
}

func (s *c16Server) handleSend(r *sendMessageRequest) {
	if s.failSends > 0 {
		s.failSends--
		r.response <- errors.New("write failed")
		return
	}
	s.written = append(s.written, r.msg.Payload)
	r.response <- nil // written
	if s.preface != nil {
		s.c.requestResponseChannel <- &requestResponse{message: s.preface}
	}
	if resp := s.policy(r.msg.Payload); resp != nil {
		s.c.requestResponseChannel <- &requestResponse{message: resp}
	}
}

// start installs the scheduler (engine) or starts the goroutines (native).
func (s *c16Server) start() {
	if verifrt.Symbolic() {
		verifrt.OnBlocked(s.pump)
		return
	}
	go s.c.runRequests(s.ctx, s.interrupt)
	go func() {
		for {
			select {
			case r := <-s.c.sendChannel:
				// let the requests goroutine register the request first (it is prompt)
				time.Sleep(5 * time.Millisecond)
				s.handleSend(r)
			case <-s.interrupt:
				return
			}
		}
	}()
}

func (s *c16Server) stop() {
	if verifrt.Symbolic() {
		verifrt.OnBlocked(nil)
		return
	}
	time.Sleep(20 * time.Millisecond)
	close(s.interrupt)
	time.Sleep(10 * time.Millisecond)
}

// VerifHarness_C16_outputs: GetOutputs over symbolic outpoint indexes.
func VerifHarness_C16_outputs() {
	maxN := 2
	if verifrt.Thorough() {
		maxN = 3
	}
	c, s := c16NewClient()
	txs := []*wire.MsgTx{c16Tx(0), c16Tx(1)}
	s.policy = func(req MessagePayload) *Message {
		if g, ok := req.(*GetTx); ok {
			for _, tx := range txs {
				if *tx.TxHash() == g.TxID {
					return &Message{Payload: &BaseTx{Tx: tx}}
				}
			}
			h := g.TxID
			return &Message{Payload: &Reject{MessageType: MessageTypeGetTx, Hash: &h, Code: RejectCodeNotFound, Message: "unknown"}}
		}
		return nil
	}
	n := verifrt.Choose("outpoints", maxN+1)
	var ops []wire.OutPoint
	var which []int
	for i := 0; i < n; i++ {
		w := verifrt.Choose("op.tx", 2)
		idx := verifrt.U32("op.index")
		ops = append(ops, wire.OutPoint{Hash: *txs[w].TxHash(), Index: idx})
		which = append(which, w)
	}
	s.start()
	var res []bitcoin.UTXO
	var err error
	panicked, what := verifrt.Catch(func() { res, err = c.GetOutputs(s.ctx, ops) })
	s.stop()
	verifrt.Note("GetOutputs(%d outpoints): panic=%v %s err=%v results=%d", n, panicked, what, err, len(res))
	verifrt.Sig("GetOutputs", "panic")
	verifrt.Assert(!panicked, "C16.outputs.no-panic")
	if panicked {
		return
	}
	anyOOB := false
	for i := range ops {
		anyOOB = verifrt.Or(anyOOB, ops[i].Index >= 2)
	}
	if err != nil {
		verifrt.Sig("GetOutputs", "spurious-error")
		verifrt.Assert(anyOOB, "C16.outputs.error-only-for-invalid-outpoint")
		verifrt.Reach("C16.outputs.error")
		return
	}
	verifrt.Sig("GetOutputs", "missing-error")
	verifrt.Assert(verifrt.Not(anyOOB), "C16.outputs.invalid-outpoint-is-an-error")
	verifrt.Sig("GetOutputs", "count")
	verifrt.Assert(len(res) == n, "C16.outputs.one-result-per-outpoint")
	if len(res) != n {
		return
	}
	for i := range ops {
		if ops[i].Index >= 2 {
			continue
		}
		want := txs[which[i]].TxOut[ops[i].Index]
		verifrt.Sig("GetOutputs", "value")
		verifrt.Assert(res[i].Value == want.Value, "C16.outputs.value-of-that-outpoint")
		verifrt.Sig("GetOutputs", "script")
		verifrt.Assert(verifrt.BytesEq(res[i].LockingScript, want.LockingScript), "C16.outputs.script-of-that-outpoint")
		verifrt.Sig("GetOutputs", "key")
		verifrt.Assert(res[i].Hash == ops[i].Hash && res[i].Index == ops[i].Index, "C16.outputs.in-order")
	}
	verifrt.Reach("C16.outputs.done")
}

// VerifHarness_C16_calls: one synchronous call of each kind against a server
// that answers, rejects, answers another key, or stays silent, with a foreign
// pending request that must stay undisturbed.
func VerifHarness_C16_calls() {
	c, s := c16NewClient()
	keys := c16Keys()
	// a request of "another caller", already registered
	foreignCh := make(chan *Message, 1)
	// (distinct key: the statement quantifies over concurrent calls with distinct keys)
	var foreignKey bitcoin.Hash32
	foreignKey[3] = 0xf0
	foreign := &request{typ: c16Kinds[verifrt.Choose("foreign.kind", len(c16Kinds))], hash: foreignKey, id: 777, response: foreignCh}
	switch foreign.typ {
	case MessageTypeGetHeaders:
		// registered exactly as GetHeaders registers it: keyed by height, hash left zero
		foreign.hash = bitcoin.Hash32{}
		foreign.height = 5000000
	case MessageTypeSaveTxs, MessageTypeGetFeeQuotes:
		foreign.hash = bitcoin.Hash32{} // these calls register no key
	}
	c.requests = append(c.requests, foreign)

	kind := verifrt.Choose("call", 8)
	if kind == 7 {
		verifrt.Assume(foreign.typ != MessageTypeGetFeeQuotes) // fee quote calls have no key to tell them apart
	}
	behaviour := verifrt.Choose("server", 4) // 0 answer, 1 reject, 2 silent, 3 answer for another key
	code := RejectCode(verifrt.U32("reject.code"))
	tx := c16Tx(0)
	txid := *tx.TxHash()
	hdr := c16Header(0)
	bh := *hdr.BlockHash()
	otherHdr := c16Header(1)
	otherTx := c16Tx(1)
	otherKey := keys[4]
	height := verifrt.IntRange("call.height", -1, 1<<20)

	reject := func(t uint64, h bitcoin.Hash32) *Message {
		return &Message{Payload: &Reject{MessageType: t, Hash: &h, Code: code, Message: "rejected"}}
	}
	accept := func(t uint64, h bitcoin.Hash32) *Message {
		return &Message{Payload: &Accept{MessageType: t, Hash: &h}}
	}
	s.policy = func(req MessagePayload) *Message {
		if behaviour == 2 {
			return nil
		}
		switch m := req.(type) {
		case *GetTx:
			switch behaviour {
			case 0:
				return &Message{Payload: &BaseTx{Tx: tx}}
			case 1:
				return reject(MessageTypeGetTx, m.TxID)
			default:
				return &Message{Payload: &BaseTx{Tx: otherTx}}
			}
		case *GetHeader:
			switch behaviour {
			case 0:
				return &Message{Payload: &Header{Header: hdr, BlockHeight: 5, IsMostPOW: true}}
			case 1:
				return reject(MessageTypeGetHeader, m.BlockHash)
			default:
				return &Message{Payload: &Header{Header: otherHdr, BlockHeight: 6}}
			}
		case *GetHeaders:
			switch behaviour {
			case 0:
				// (as Node.GetHeaders answers: from the requested height, or the most recent ones for -1)
				start := uint32(3)
				if m.RequestHeight >= 0 {
					start = uint32(m.RequestHeight)
				}
				return &Message{Payload: &Headers{RequestHeight: m.RequestHeight, StartHeight: start, Headers: []*wire.BlockHeader{&hdr}}}
			case 1:
				return nil // the protocol has no keyed reject for headers-by-height
			default:
				return &Message{Payload: &Headers{RequestHeight: m.RequestHeight + 1}}
			}
		case *SendTx:
			switch behaviour {
			case 0:
				return accept(MessageTypeSendTx, *m.Tx.TxHash())
			case 1:
				return reject(MessageTypeSendTx, *m.Tx.TxHash())
			default:
				return accept(MessageTypeSendTx, otherKey)
			}
		case *ReprocessTx:
			switch behaviour {
			case 0:
				return accept(MessageTypeReprocessTx, m.TxID)
			case 1:
				return reject(MessageTypeReprocessTx, m.TxID)
			default:
				return accept(MessageTypeReprocessTx, otherKey)
			}
		case *MarkHeaderInvalid:
			switch behaviour {
			case 0:
				return accept(MessageTypeMarkHeaderInvalid, m.BlockHash)
			case 1:
				return reject(MessageTypeMarkHeaderInvalid, m.BlockHash)
			default:
				return accept(MessageTypeMarkHeaderNotInvalid, m.BlockHash)
			}
		case *MarkHeaderNotInvalid:
			switch behaviour {
			case 0:
				return accept(MessageTypeMarkHeaderNotInvalid, m.BlockHash)
			case 1:
				return reject(MessageTypeMarkHeaderNotInvalid, m.BlockHash)
			default:
				return accept(MessageTypeMarkHeaderInvalid, m.BlockHash)
			}
		case *GetFeeQuotes:
			switch behaviour {
			case 0:
				return &Message{Payload: &FeeQuotes{}}
			case 1:
				// a fee quote request has no key, so its reject carries no hash
				return &Message{Payload: &Reject{MessageType: MessageTypeGetFeeQuotes, Code: code, Message: "rejected"}}
			default:
				return accept(MessageTypeGetFeeQuotes, otherKey)
			}
		}
		return nil
	}
	names := []string{"GetTx", "GetHeader", "GetHeaders", "SendTx", "ReprocessTx", "MarkHeaderInvalid", "MarkHeaderNotInvalid", "GetFeeQuotes"}
	if kind == 2 && verifrt.Choose("new-block-notification-first", 2) == 1 {
		// the server announces a new block (headers message, request height left zero, as the node
		// sends them) just before it answers
		s.preface = &Message{Payload: &Headers{RequestHeight: 0, StartHeight: 800000, Headers: []*wire.BlockHeader{&otherHdr}}}
		verifrt.Reach("C16.call.notification-before-the-answer")
	}
	s.start()
	var err error
	var gotTx *wire.MsgTx
	var gotHeader *Header
	var gotHeaders *Headers
	call := func() {
		switch kind {
		case 0:
			gotTx, err = c.GetTx(s.ctx, txid)
		case 1:
			gotHeader, err = c.GetHeader(s.ctx, bh)
		case 2:
			gotHeaders, err = c.GetHeaders(s.ctx, height, 1)
		case 3:
			err = c.SendTx(s.ctx, tx)
		case 4:
			err = c.ReprocessTx(s.ctx, txid, nil)
		case 5:
			err = c.MarkHeaderInvalid(s.ctx, bh)
		case 6:
			err = c.MarkHeaderNotInvalid(s.ctx, bh)
		case 7:
			_, err = c.GetFeeQuotes(s.ctx)
		}
	}
	if verifrt.Choose("an-earlier-attempt-of-the-same-call-could-not-be-sent", 2) == 1 {
		// the same call, made a moment earlier, failed because its message could not be written;
		// that failure must not leave anything behind that takes this call's response
		s.failSends = 1
		p0, w0 := verifrt.Catch(call)
		verifrt.Sig(names[kind], "failed-send")
		verifrt.Assert(!p0 && err != nil, "C16.call.unsent-call-fails")
		verifrt.Note("earlier attempt: panic=%v %s err=%v", p0, w0, err)
		if verifrt.Symbolic() {
			s.pump()
		} else {
			time.Sleep(20 * time.Millisecond)
		}
		err, gotTx, gotHeader, gotHeaders = nil, nil, nil, nil
		verifrt.Reach("C16.call.after-a-failed-send")
	}
	panicked, what := verifrt.Catch(call)
	s.stop()
	verifrt.Note("%s with server behaviour %d: panic=%v %s err=%v", names[kind], behaviour, panicked, what, err)
	verifrt.Sig(names[kind], "panic")
	verifrt.Assert(!panicked, "C16.call.no-panic")
	if panicked {
		return
	}
	effective := behaviour
	if kind == 2 && behaviour == 1 {
		effective = 2 // headers-by-height: silent
	}
	switch effective {
	case 0:
		verifrt.Sig(names[kind], "answered")
		verifrt.Assert(err == nil, "C16.call.returns-its-own-response")
		switch kind {
		case 0:
			verifrt.Assert(gotTx != nil && *gotTx.TxHash() == txid, "C16.call.returns-its-own-response")
		case 1:
			verifrt.Assert(gotHeader != nil && *gotHeader.Header.BlockHash() == bh && gotHeader.BlockHeight == 5, "C16.call.returns-its-own-response")
		case 2:
			verifrt.Assert(gotHeaders != nil && int(gotHeaders.RequestHeight) == height && len(gotHeaders.Headers) == 1 && *gotHeaders.Headers[0].BlockHash() == bh, "C16.call.returns-its-own-response")
		}
		verifrt.Reach("C16.call.answered")
	case 1:
		verifrt.Sig(names[kind], "rejected")
		re, isReject := errors.Cause(err).(RejectError)
		verifrt.Assert(isReject, "C16.call.reject-surfaces-as-reject-error")
		if isReject {
			verifrt.Assert(re.Code == code && re.Description == "rejected", "C16.call.reject-carries-code-and-message")
		}
		verifrt.Reach("C16.call.rejected")
	default:
		verifrt.Sig(names[kind], "timeout")
		verifrt.Assert(errors.Cause(err) == ErrTimeout, "C16.call.unanswered-call-times-out")
		verifrt.Reach("C16.call.timed-out")
	}
	// let the requests unit consume a pending removal, then inspect the list
	if verifrt.Symbolic() {
		s.pump()
	}
	verifrt.Sig(names[kind], "pending-after")
	verifrt.Assert(len(c.requests) == 1 && c.requests[0] == foreign, "C16.call.leaves-other-pending-calls-undisturbed")
	verifrt.Sig(names[kind], "foreign")
	verifrt.Assert(len(foreignCh) == 0, "C16.call.never-delivers-to-another-call")
	verifrt.Reach("C16.calls.done")
}
