//verif:pkg pkg/client
package client

// C16 — response routing in the remote client (inductive step over an
// arbitrary pending list) and the synchronous calls built on it.

import (
	"context"

	"github.com/tokenized/pkg/bitcoin"
	"github.com/tokenized/pkg/wire"

	"github.com/tokenized/spynode/internal/verifrt"
)

var c16Kinds = []uint64{
	MessageTypeGetTx, MessageTypeGetHeaders, MessageTypeGetHeader, MessageTypeSendTx,
	MessageTypeSendExpandedTx, MessageTypeSaveTxs, MessageTypeReprocessTx,
	MessageTypeMarkHeaderInvalid, MessageTypeMarkHeaderNotInvalid, MessageTypeGetFeeQuotes,
}

func c16Tx(id int) *wire.MsgTx {
	tx := wire.NewMsgTx(1)
	var h bitcoin.Hash32
	h[0] = byte(0x16)
	op := wire.OutPoint{Hash: h, Index: uint32(id)}
	tx.AddTxIn(wire.NewTxIn(&op, nil))
	tx.AddTxOut(wire.NewTxOut(uint64(5000+id), bitcoin.Script{byte(0x51 + id)}))
	tx.AddTxOut(wire.NewTxOut(uint64(7000+id), bitcoin.Script{byte(0x61 + id), 0x01}))
	tx.LockTime = uint32(id)
	return tx
}

func c16Header(id int) wire.BlockHeader {
	var mr bitcoin.Hash32
	mr[0] = byte(id)
	return wire.BlockHeader{Version: 1, MerkleRoot: mr, Timestamp: uint32(1600000000 + id), Bits: 0x1d00ffff, Nonce: uint32(id)}
}

// c16Keys: hashes a request may be keyed by: txid of tx0, txid of tx1, block
// hash of header 0, block hash of header 1, an unrelated hash.
func c16Keys() []bitcoin.Hash32 {
	h0, h1 := c16Header(0), c16Header(1)
	var other bitcoin.Hash32
	other[7] = 0x77
	return []bitcoin.Hash32{*c16Tx(0).TxHash(), *h0.BlockHash(), other, *c16Tx(1).TxHash(), *h1.BlockHash()}
}

type c16Pending struct {
	req *request
	ch  chan *Message
}

// hashEq is a non-forking symbolic equality of two hashes.
func c16HashEq(a, b *bitcoin.Hash32) bool {
	return verifrt.BytesEq(a[:], b[:])
}

// VerifHarness_C16_route: one incoming response against an arbitrary pending
// list; the response must reach exactly the first request it answers.
func VerifHarness_C16_route() {
	ctx := context.Background()
	maxPending := 2
	if verifrt.Thorough() {
		maxPending = 3
	}
	keys := c16Keys()
	c := &RemoteClient{}
	n := verifrt.Choose("pending", maxPending+1)
	var pend []c16Pending
	for i := 0; i < n; i++ {
		typ := verifrt.U64("req.kind")
		inSet := false
		for _, k := range c16Kinds {
			inSet = verifrt.Or(inSet, typ == k)
		}
		verifrt.Assume(inSet)
		hash := keys[verifrt.Choose("req.key", 3)]
		hash[31] ^= verifrt.U8("req.key.flip") // symbolic perturbation of the key
		height := verifrt.Int("req.height")
		verifrt.Assume(verifrt.And(height >= -(1<<31), height < (1<<31)))
		ch := make(chan *Message, 1)
		r := &request{typ: typ, hash: hash, height: height, id: uint64(i), response: ch}
		c.requests = append(c.requests, r)
		pend = append(pend, c16Pending{r, ch})
	}
	// the incoming response
	var msg *Message
	var answers func(r *request) bool // does the response answer this request?
	switch verifrt.Choose("resp.kind", 6) {
	case 0:
		// a headers message: the answer to a request (by height: starts at that height; most
		// recent, -1: starts anywhere) or a new-block notification (request height zero, starts at
		// the new block)
		h := verifrt.I32("resp.height")
		start := verifrt.U32("resp.start-height")
		msg = &Message{Payload: &Headers{RequestHeight: h, StartHeight: start}}
		answers = func(r *request) bool {
			return verifrt.And(r.typ == MessageTypeGetHeaders, verifrt.And(r.height == int(h), verifrt.Or(r.height < 0, r.height == int(start))))
		}
	case 1:
		hdr := c16Header(0)
		bh := *hdr.BlockHash()
		msg = &Message{Payload: &Header{Header: hdr}}
		answers = func(r *request) bool {
			return verifrt.And(r.typ == MessageTypeGetHeader, c16HashEq(&r.hash, &bh))
		}
	case 2:
		msg = &Message{Payload: &FeeQuotes{}}
		answers = func(r *request) bool { return r.typ == MessageTypeGetFeeQuotes }
	case 3:
		tx := c16Tx(0)
		txid := *tx.TxHash()
		msg = &Message{Payload: &BaseTx{Tx: tx}}
		answers = func(r *request) bool {
			return verifrt.And(r.typ == MessageTypeGetTx, c16HashEq(&r.hash, &txid))
		}
	case 4:
		t := verifrt.U64("resp.accept.type")
		var hp *bitcoin.Hash32
		if verifrt.Choose("resp.hash.present", 2) == 1 {
			h := keys[verifrt.Choose("resp.key", 3)]
			h[31] ^= verifrt.U8("resp.key.flip")
			hp = &h
		}
		msg = &Message{Payload: &Accept{MessageType: t, Hash: hp}}
		answers = func(r *request) bool {
			if hp == nil {
				return false
			}
			switch t {
			case MessageTypeSendTx, MessageTypeSendExpandedTx, MessageTypeSaveTxs, MessageTypeReprocessTx,
				MessageTypeMarkHeaderInvalid, MessageTypeMarkHeaderNotInvalid:
				return verifrt.And(r.typ == t, c16HashEq(&r.hash, hp))
			}
			return false
		}
	case 5:
		t := verifrt.U64("resp.reject.type")
		var hp *bitcoin.Hash32
		if verifrt.Choose("resp.hash.present", 2) == 1 {
			h := keys[verifrt.Choose("resp.key", 3)]
			h[31] ^= verifrt.U8("resp.key.flip")
			hp = &h
		}
		msg = &Message{Payload: &Reject{MessageType: t, Hash: hp, Code: RejectCode(verifrt.U32("resp.code")), Message: "no"}}
		answers = func(r *request) bool {
			if t == MessageTypeGetFeeQuotes {
				return r.typ == MessageTypeGetFeeQuotes // no key: the reject carries no hash either
			}
			if hp == nil {
				return false
			}
			switch t {
			case MessageTypeSendTx, MessageTypeSendExpandedTx, MessageTypeSaveTxs, MessageTypeReprocessTx,
				MessageTypeMarkHeaderInvalid, MessageTypeMarkHeaderNotInvalid, MessageTypeGetTx, MessageTypeGetHeader:
				return verifrt.And(r.typ == t, c16HashEq(&r.hash, hp))
			}
			return false
		}
	}
	// expected receiver: the first pending request the response answers
	earlier := false
	var expect []bool
	for _, p := range pend {
		a := answers(p.req)
		expect = append(expect, verifrt.And(a, verifrt.Not(earlier)))
		earlier = verifrt.Or(earlier, a)
	}
	before := append([]*request(nil), c.requests...)

	var err error
	panicked, what := verifrt.Catch(func() { err = c.handleRequestResponse(ctx, msg) })
	verifrt.Note("handleRequestResponse(%s): panic=%v %s err=%v", NameForMessageType(msg.Payload.Type()), panicked, what, err)
	verifrt.Sig(NameForMessageType(msg.Payload.Type()), "panic")
	verifrt.Assert(!panicked, "C16.route.no-panic")
	if panicked {
		return
	}
	delivered := 0
	for i, p := range pend {
		got := len(p.ch) == 1
		verifrt.Sig(NameForMessageType(msg.Payload.Type()), "delivery")
		verifrt.Assert(got == expect[i], "C16.route.delivered-iff-first-request-it-answers")
		if got {
			delivered++
			m := <-p.ch
			verifrt.Sig(NameForMessageType(msg.Payload.Type()), "identity")
			verifrt.Assert(m == msg, "C16.route.delivers-that-response")
			// the entry is gone from the pending list, the others keep their order
			for _, r := range c.requests {
				verifrt.Sig(NameForMessageType(msg.Payload.Type()), "still-pending")
				verifrt.Assert(r != p.req, "C16.route.answered-request-is-removed")
			}
		}
	}
	verifrt.Sig(NameForMessageType(msg.Payload.Type()), "count")
	verifrt.Assert(len(c.requests) == len(before)-delivered, "C16.route.list-loses-exactly-the-answered-entry")
	k := 0
	for _, r := range before {
		if k < len(c.requests) && c.requests[k] == r {
			k++
		}
	}
	verifrt.Sig(NameForMessageType(msg.Payload.Type()), "order")
	verifrt.Assert(k == len(c.requests), "C16.route.other-requests-undisturbed")
	if delivered > 0 {
		verifrt.Reach("C16.route.delivered")
	} else {
		verifrt.Reach("C16.route.unsolicited")
	}
	verifrt.Reach("C16.route.done")
}
