//verif:pkg internal/spynode
//verif:kit memstore nodekit synckit conn runkit
package spynode

// C14 — re-request from an announcer, through the real Node.Run: the trusted peer announces a
// transaction, announces it again inside the window (so that it is only tracked), never delivers
// it, and shows activity after the window has lapsed; the node must ask again.  The same after
// the trusted connection was lost and re-established (the in-process restart of Node.Run).

import (
	"context"
	"time"

	"github.com/tokenized/pkg/wire"

	"github.com/tokenized/spynode/internal/verifrt"
)

func VerifHarness_C14_session() {
	verifrt.Goroutines()
	ctx := context.Background()
	w, store, cfg := c19NewWorld(ctx)
	if w.ln != nil {
		defer w.ln.Close()
	}
	w.newNode(cfg, store)
	node := w.node
	w.connectPeer()
	go node.Run(ctx)
	ready := func(max int) bool {
		for i := 0; i < max && !node.state.IsReady(); i++ {
			w.tick(100 * time.Millisecond)
		}
		w.tick(100 * time.Millisecond)
		return node.state.IsReady()
	}
	verifrt.Assert(ready(40), "C14.session.node-gets-in-sync")
	if verifrt.Choose("trusted-connection-lost-and-re-established", 2) == 1 {
		w.link.hangUp()
		w.connectPeer()
		for i := 0; i < 10; i++ {
			w.tick(100 * time.Millisecond)
		}
		verifrt.Sig("session", "in-sync-again")
		verifrt.Assert(ready(40), "C14.session.node-gets-in-sync")
		verifrt.Reach("C14.session.reconnected")
	}
	t := vkTx(9, []int{5}, true)
	tid := *t.TxHash()
	asked := func() int {
		n := 0
		for _, m := range w.seen {
			if gd, ok := m.(*wire.MsgGetData); ok {
				for _, iv := range gd.InvList {
					if iv.Type == wire.InvTypeTx && iv.Hash == tid {
						n++
					}
				}
			}
		}
		return n
	}
	inv := wire.NewMsgInv()
	inv.AddInvVect(wire.NewInvVect(wire.InvTypeTx, &tid))
	w.link.toNode(inv) // first announcement: the node asks for it
	w.tick(100 * time.Millisecond)
	w.tick(100 * time.Millisecond)
	verifrt.Sig("session", "first-request")
	verifrt.Assert(asked() == 1, "C14.session.announced-tx-is-requested-once")
	w.link.toNode(inv) // announced again inside the window: remembered, not asked again
	w.tick(100 * time.Millisecond)
	w.tick(100 * time.Millisecond)
	verifrt.Sig("session", "window")
	verifrt.Assert(asked() == 1, "C14.session.no-second-request-inside-the-window")
	// the body never arrives; the window lapses; the peer shows activity
	for i := 0; i < 35; i++ {
		w.tick(100 * time.Millisecond)
	}
	w.link.toNode(wire.NewMsgPing(7))
	for i := 0; i < 5; i++ {
		w.tick(100 * time.Millisecond)
	}
	verifrt.Note("getdata requests for the tx seen by the peer: %d; commands %v", asked(), w.commands())
	verifrt.Sig("session", "re-request")
	verifrt.Assert(asked() == 2, "C14.session.announcer-is-asked-again-after-the-window")
	node.Stop(ctx)
	verifrt.Reach("C14.session.done")
}
