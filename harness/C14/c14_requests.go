//verif:pkg internal/handlers
package handlers

// C14 — one transaction request at a time across connections, re-request
// after the window, forgetting confirmed announcements.

import (
	"context"
	"time"

	"github.com/tokenized/pkg/bitcoin"
	"github.com/tokenized/pkg/wire"
	pkgstorage "github.com/tokenized/pkg/storage"
	"github.com/tokenized/spynode/internal/state"
	handlerstorage "github.com/tokenized/spynode/internal/storage"

	"github.com/tokenized/spynode/internal/verifrt"
)

type c14Emit struct {
	tx   int
	conn int
	at   int64 // virtual ns
}

type c14Conn struct {
	id      int
	tracker *state.TxTracker
	inv     func(ctx context.Context, m wire.Message) ([]wire.Message, error)
	log     *[]c14Emit
	txids   []bitcoin.Hash32
}

// TransmitMessage implements state.MessageTransmitter (used by TxTracker.Check).
func (c *c14Conn) TransmitMessage(m wire.Message) bool {
	c.record(m)
	return true
}

func (c *c14Conn) record(m wire.Message) {
	gd, ok := m.(*wire.MsgGetData)
	if !ok {
		return
	}
	for _, iv := range gd.InvList {
		if iv.Type != wire.InvTypeTx {
			continue
		}
		for k := range c.txids {
			if iv.Hash == c.txids[k] {
				*c.log = append(*c.log, c14Emit{k, c.id, verifrt.NowNanos()})
			}
		}
	}
}

func c14Tx(id int) *wire.MsgTx {
	tx := wire.NewMsgTx(1)
	var h bitcoin.Hash32
	h[0] = 0x14
	op := wire.OutPoint{Hash: h, Index: uint32(id)}
	tx.AddTxIn(wire.NewTxIn(&op, nil))
	tx.AddTxOut(wire.NewTxOut(uint64(100+id), nil))
	tx.LockTime = uint32(id)
	return tx
}

const c14Window = int64(3 * time.Second)

func VerifHarness_C14_requests() {
	ctx := context.Background()
	nEvents, nConns := 4, 2
	if verifrt.Thorough() {
		nEvents, nConns = 5, 2 // (5 events on 3 connections are 1.8 M paths and close to an hour)
	}
	txs := []*wire.MsgTx{c14Tx(0), c14Tx(1)}
	txids := []bitcoin.Hash32{*txs[0].TxHash(), *txs[1].TxHash()}
	memPool := state.NewMemPool()
	var log []c14Emit
	var conns []*c14Conn
	// connection 0 is the trusted peer, the others are verified untrusted peers
	st := state.NewState()
	st.SetInSync()
	tr0 := state.NewTxTracker()
	txRepo := handlerstorage.NewTxRepository(pkgstorage.NewMockStorage())
	h0 := NewInvHandler(st, txRepo, tr0, memPool)
	// the queue between the connections' read loops and the transaction processor, and the real
	// handler that puts an arriving body into it
	var txChannel TxChannel
	txChannel.Open(10)
	txHandler := NewTXHandler(st, &txChannel)
	queued := []bool{false, false}  // arrived, still waiting for the transaction processor
	arrived := []bool{false, false} // the node has the body (set again when a body that was still queued
	// at its confirmation is processed afterwards: the node then holds it, and says so)
	process := func() {
		for len(txChannel.Channel) > 0 {
			td := <-txChannel.Channel
			// (what processUnconfirmedTx does first)
			conns[0].tracker.Remove(ctx, *td.Msg.TxHash())
			memPool.AddTransaction(ctx, td.Msg, td.Trusted)
			for k := range txids {
				if txids[k] == *td.Msg.TxHash() {
					queued[k] = false
					arrived[k] = true
				}
			}
		}
	}
	conns = append(conns, &c14Conn{id: 0, tracker: tr0, inv: h0.Handle, log: &log, txids: txids})
	var untrustedTxHandler *UntrustedTXHandler // the body handler of the first untrusted connection
	for i := 1; i < nConns; i++ {
		us := state.NewUntrustedState()
		us.SetVerified()
		if untrustedTxHandler == nil {
			untrustedTxHandler = NewUntrustedTXHandler(us, &txChannel)
		}
		tr := state.NewTxTracker()
		h := NewUntrustedInvHandler(us, tr, memPool)
		conns = append(conns, &c14Conn{id: i, tracker: tr, inv: h.Handle, log: &log, txids: txids})
	}

	// reference bookkeeping
	confirmed := []bool{false, false}
	lastReq := []int64{-1, -1}                  // time of the last getdata per tx (-1: never)
	waiting := make([][]bool, nConns)           // conn announced tx and was told to wait (tracked)
	for i := range waiting {
		waiting[i] = []bool{false, false}
	}
	steps := []string{"e0", "e1", "e2", "e3", "e4", "e5"}
	for e := 0; e < nEvents; e++ {
		d := verifrt.IntRange(steps[e]+".delay-ns", 0, 10_000_000_000)
		verifrt.Advance(time.Duration(d))
		now := verifrt.NowNanos()
		before := len(log)
		kind := verifrt.Choose(steps[e]+".event", 5)
		switch kind {
		case 0: // inventory announcement on a connection
			c := conns[verifrt.Choose(steps[e]+".conn", nConns)]
			both := verifrt.Choose(steps[e]+".both", 2) == 1
			msg := wire.NewMsgInv()
			ann := []int{0}
			if both {
				ann = []int{0, 1}
			}
			for _, k := range ann {
				h := txids[k]
				msg.AddInvVect(wire.NewInvVect(wire.InvTypeTx, &h))
			}
			resp, err := c.inv(ctx, msg)
			verifrt.Assert(err == nil, "C14.inv.no-error")
			for _, r := range resp {
				c.record(r)
			}
			for _, k := range ann {
				requestedNow := false
				for _, em := range log[before:] {
					if em.tx == k {
						requestedNow = true
					}
				}
				if !requestedNow && !arrived[k] {
					waiting[c.id][k] = true
				}
				if confirmed[k] {
					confirmed[k] = false // re-announced after confirmation: tracked again legitimately
				}
			}
			verifrt.Reach("C14.event.inv")
		case 1: // the body of tx0 or tx1 arrives; the transaction processor takes it at once, or is
			// busy (it waits for the block processor's lock) and takes it at a later event
			k := verifrt.Choose(steps[e]+".tx", 2)
			var herr error
			if verifrt.Choose(steps[e]+".from-an-untrusted-peer", 2) == 1 {
				// (enters the mempool without the trusted mark; the trusted peer's announcement may follow)
				_, herr = untrustedTxHandler.Handle(ctx, txs[k])
				verifrt.Reach("C14.event.body-from-an-untrusted-peer")
			} else {
				_, herr = txHandler.Handle(ctx, txs[k])
			}
			verifrt.Assert(herr == nil, "C14.body.handled")
			verifrt.Assert(len(txChannel.Channel) > 0, "C14.body.queued-for-the-processor")
			arrived[k] = true
			queued[k] = true
			if verifrt.Choose(steps[e]+".processor-busy", 2) == 0 {
				process()
			} else {
				verifrt.Reach("C14.event.body-queued")
			}
			verifrt.Reach("C14.event.body")
		case 4: // the transaction processor runs
			process()
		case 2: // periodic check on a connection
			c := conns[verifrt.Choose(steps[e]+".conn", nConns)]
			err := c.tracker.Check(ctx, memPool, c)
			verifrt.Assert(err == nil, "C14.check.no-error")
			for k := 0; k < 2; k++ {
				emitted := false
				for _, em := range log[before:] {
					if em.tx == k && em.conn == c.id {
						emitted = true
					}
				}
				// liveness: a waiting announcer re-requests once the window has lapsed
				if waiting[c.id][k] && !arrived[k] && !confirmed[k] {
					lapsed := verifrt.Or(lastReq[k] < 0, now-lastReq[k] > c14Window)
					verifrt.Sig("Check", "re-request")
					verifrt.Assert(verifrt.Implies(lapsed, emitted), "C14.check.re-requests-after-window-from-an-announcer")
					if emitted {
						waiting[c.id][k] = false
						verifrt.Reach("C14.check.re-requested")
					}
				} else if arrived[k] {
					waiting[c.id][k] = false
				}
			}
			verifrt.Reach("C14.event.check")
		case 3: // a processed block confirms tx0: cleanup on every connection
			k := 0
			// the cleanup gets every txid of the block: the coinbase (never announced) comes first
			var coinbase bitcoin.Hash32
			coinbase[0], coinbase[31] = 0xcb, 0x01
			ids := []*bitcoin.Hash32{&coinbase, &txids[k]}
			for _, c := range conns {
				c.tracker.RemoveList(ctx, ids)
			}
			memPool.RemoveTransaction(txids[k])
			confirmed[k] = true
			arrived[k] = false
			lastReq[k] = -1
			for i := range waiting {
				waiting[i][k] = false
			}
			verifrt.Reach("C14.event.confirm")
		}
		// safety on everything emitted in this step
		for _, em := range log[before:] {
			k := em.tx
			if queued[k] {
				verifrt.Sig("getdata", "after-arrival", "body still waits for the transaction processor")
			} else {
				verifrt.Sig("getdata", "after-arrival")
			}
			verifrt.Assert(!arrived[k], "C14.request.none-after-the-body-arrived")
			verifrt.Sig("getdata", "after-confirmation")
			verifrt.Assert(!confirmed[k], "C14.request.confirmed-announcements-are-forgotten")
			if lastReq[k] >= 0 {
				verifrt.Sig("getdata", "window")
				verifrt.Assert(em.at-lastReq[k] > c14Window, "C14.request.one-peer-at-a-time-within-the-window")
			}
			lastReq[k] = em.at
		}
	}
	verifrt.Reach("C14.requests.done")
}
