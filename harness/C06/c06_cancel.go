//verif:pkg internal/spynode
//verif:kit memstore nodekit
package spynode

// C06 — a confirmed double spend cancels the losing unconfirmed transaction.

import (
	"context"

	"github.com/tokenized/pkg/bitcoin"
	"github.com/tokenized/pkg/wire"
	"github.com/tokenized/spynode/internal/handlers"

	"github.com/tokenized/spynode/internal/verifrt"
)

var c06Subsets = [][]int{{0}, {1}, {2}, {0, 1}, {1, 2}}

func c06Shares(a, b []int) bool {
	for _, x := range a {
		for _, y := range b {
			if x == y {
				return true
			}
		}
	}
	return false
}

func VerifHarness_C06_cancel() {
	maxUnconf, maxBlockTxs := 2, 2
	if verifrt.Thorough() {
		maxUnconf, maxBlockTxs = 2, 3
	}
	c06Scenario(maxUnconf, maxBlockTxs, c06Subsets, true)
}

// VerifHarness_C06_rivals: the unconfirmed transactions double spend EACH OTHER as well (up to
// three rivals for outpoint 0) before a block settles the matter: every relevant rival that is
// not the confirmed one is cancelled, whatever the order they arrived in.
func VerifHarness_C06_rivals() {
	subsets := [][]int{{0}, {0, 1}, {1}}
	if verifrt.Thorough() {
		subsets = [][]int{{0}, {0, 1}, {1}, {0, 2}}
	}
	c06Scenario(3, 1, subsets, false)
	verifrt.Reach("C06.rivals.done")
}

func c06Scenario(maxUnconf, maxBlockTxs int, subsets [][]int, disjoint bool) {
	ctx := context.Background()
	k, err := vkNewNode(ctx, nil)
	verifrt.Assert(err == nil, "C06.kit.node-loads")
	node, rec := k.node, k.rec
	node.state.SetInSync()

	type utx struct {
		tx       *wire.MsgTx
		txid     bitcoin.Hash32
		spends   []int
		relevant bool
	}
	// unconfirmed transactions seen first
	nU := verifrt.Choose("unconfirmed", maxUnconf+1)
	var us []utx
	for i := 0; i < nU; i++ {
		sp := subsets[verifrt.Choose("u.inputs", len(subsets))]
		rel := verifrt.Choose("u.relevant", 2) == 1
		tx := vkTx(10+i, sp, rel)
		u := utx{tx, *tx.TxHash(), sp, rel}
		if disjoint {
			for _, o := range us {
				verifrt.Assume(!c06Shares(o.spends, sp))
			}
		}
		us = append(us, u)
		perr := node.processUnconfirmedTx(ctx, handlers.TxData{Msg: tx, Trusted: true, ConfirmedHeight: -1})
		verifrt.Sig("processUnconfirmedTx", "err")
		verifrt.Assert(perr == nil, "C06.unconfirmed.processed")
	}
	delivered := func(u utx) bool { return len(rec.of("tx", u.txid)) > 0 }
	for _, u := range us {
		verifrt.Sig("unconfirmed", "delivery")
		verifrt.Assert(delivered(u) == u.relevant, "C06.unconfirmed.relevant-delivered-irrelevant-not")
	}
	mark := len(rec.events)

	// the confirming block
	nB := verifrt.Choose("block-txs", maxBlockTxs+1)
	var bs []utx
	var btxs []*wire.MsgTx
	for j := 0; j < nB; j++ {
		var b utx
		which := 0
		if nU > 0 {
			which = verifrt.Choose("b.same-as-unconfirmed", nU+1) // 0: a new transaction, i>0: confirms unconfirmed i-1
		}
		if which > 0 {
			b = us[which-1]
			for _, o := range bs {
				verifrt.Assume(o.txid != b.txid)
			}
		} else {
			sp := subsets[verifrt.Choose("b.inputs", len(subsets))]
			rel := verifrt.Choose("b.relevant", 2) == 1
			tx := vkTx(20+j, sp, rel)
			b = utx{tx, *tx.TxHash(), sp, rel}
		}
		// block transactions do not double spend each other
		for _, o := range bs {
			verifrt.Assume(!c06Shares(o.spends, b.spends))
		}
		bs = append(bs, b)
		btxs = append(btxs, b.tx)
	}
	// the node may be catching up when the block arrives (after a reconnection: the mempool and the
	// tracked transactions are still there)
	if verifrt.Choose("catching-up-when-the-block-arrives", 2) == 1 {
		node.state.ClearInSync()
		verifrt.Reach("C06.cancel.not-in-sync")
	}
	heightBefore := node.blocks.LastHeight()
	block := vkBlock(*node.blocks.LastHash(), 1, btxs)
	var berr error
	panicked, what := verifrt.Catch(func() { berr = node.ProcessBlock(ctx, block) })
	verifrt.Note("ProcessBlock: panic=%v %s err=%v", panicked, what, berr)
	verifrt.Sig("ProcessBlock", "panic")
	verifrt.Assert(!panicked, "C06.block.no-panic")
	if panicked {
		return
	}
	verifrt.Sig("ProcessBlock", "err")
	verifrt.Assert(berr == nil, "C06.block.processed-normally")
	verifrt.Sig("ProcessBlock", "height")
	verifrt.Assert(node.blocks.LastHeight() == heightBefore+1, "C06.block.chain-advances")

	inBlock := func(txid bitcoin.Hash32) bool {
		for _, b := range bs {
			if b.txid == txid {
				return true
			}
		}
		return false
	}
	for _, u := range us {
		// loser: delivered, not itself confirmed, shares an outpoint with a different block tx
		loser := false
		if u.relevant && !inBlock(u.txid) {
			for _, b := range bs {
				if b.txid != u.txid && c06Shares(b.spends, u.spends) {
					loser = true
				}
			}
		}
		cancels := 0
		for _, e := range rec.events[mark:] {
			if e.kind == "update" && e.txid == u.txid && e.state.Cancelled {
				cancels++
				verifrt.Sig("cancel", "flags")
				verifrt.Assert(e.state.UnSafe && !e.state.Safe, "C06.cancel.update-is-cancelled-and-unsafe")
			}
		}
		if loser {
			verifrt.Sig("cancel", "missing")
			verifrt.Assert(cancels >= 1, "C06.cancel.loser-gets-a-cancelled-update")
			id := u.txid
			verifrt.Sig("cancel", "tracking")
			verifrt.Assert(!node.memPool.TransactionExists(&id), "C06.cancel.loser-dropped-from-double-spend-tracking")
			verifrt.Reach("C06.cancel.loser")
		} else {
			verifrt.Sig("cancel", "spurious")
			verifrt.Assert(cancels == 0, "C06.cancel.only-losers-are-cancelled")
		}
	}
	// a clean restart afterwards (Node.Run's saves, a new node on the same storage) does not bring a
	// cancelled transaction back into double-spend tracking
	if verifrt.Choose("restart-after-the-block", 2) == 1 {
		node.blocks.Save(ctx)
		node.txs.Save(ctx)
		node.peers.Save(ctx)
		k2, rerr := vkNewNode(ctx, k.store)
		verifrt.Sig("restart", "load")
		verifrt.Assert(rerr == nil, "C06.restart.loads")
		if rerr == nil {
			for _, u := range us {
				cancelled := false
				for _, e := range rec.events[mark:] {
					if e.kind == "update" && e.txid == u.txid && e.state.Cancelled {
						cancelled = true
					}
				}
				if cancelled {
					id := u.txid
					verifrt.Sig("restart", "tracking")
					verifrt.Assert(!k2.node.memPool.TransactionExists(&id), "C06.cancel.loser-stays-dropped-after-a-restart")
					verifrt.Reach("C06.cancel.loser-after-restart")
				}
			}
		}
	}
	// the block's own relevant transactions are delivered with proofs
	for _, b := range bs {
		seenBefore := false
		for _, u := range us {
			if u.txid == b.txid {
				seenBefore = true
			}
		}
		if !b.relevant {
			continue
		}
		n := 0
		for _, e := range rec.events[mark:] {
			if e.txid == b.txid && ((e.kind == "tx" && !seenBefore) || (e.kind == "update" && seenBefore && !e.state.Cancelled)) {
				n++
				verifrt.Sig("block-tx", "proof")
				verifrt.Assert(e.hasProof && e.state.UnconfirmedDepth == 0, "C06.block.relevant-txs-delivered-with-proof")
			}
		}
		verifrt.Sig("block-tx", "delivered")
		verifrt.Assert(n == 1, "C06.block.relevant-txs-delivered-once")
	}
	verifrt.Reach("C06.cancel.done")
}
