//verif:pkg internal/spynode
//verif:kit memstore nodekit
package spynode

// C03 — relevant transactions are delivered completely and exactly once.

import (
	"context"

	"github.com/tokenized/pkg/bitcoin"
	"github.com/tokenized/pkg/wire"

	"github.com/tokenized/spynode/internal/verifrt"
)

func VerifHarness_C03_delivery() {
	ctx := context.Background()
	nEvents := 3
	if verifrt.Thorough() {
		nEvents = 4
	}
	k, err := vkNewNode(ctx, nil)
	verifrt.Assert(err == nil, "C03.kit.node-loads")
	node, rec := k.node, k.rec
	inSync := verifrt.Choose("in-sync", 2) == 1
	if inSync {
		node.state.SetInSync()
	}
	u1 := vkUntrusted(ctx, k, "peer1", true)
	u2 := vkUntrusted(ctx, k, "peer2", true)

	// tx A: relevant or not; tx B: relevant or not, spending A's output 0 or an outpoint of the universe
	relA := verifrt.Choose("a.relevant", 2) == 1
	relB := verifrt.Choose("b.relevant", 2) == 1
	relation := verifrt.Choose("b.relation-to-a", 3) // 0 independent, 1 spends a's output, 2 double spends a's input
	chained := relation == 1
	a := vkTx(30, []int{0}, relA)
	var b *wire.MsgTx
	if relation == 2 {
		b = vkTx(31, []int{0, 2}, relB) // outpoint 0 is a's input as well
	} else if chained {
		b = wire.NewMsgTx(1)
		op := wire.OutPoint{Hash: *a.TxHash(), Index: 0}
		b.AddTxIn(wire.NewTxIn(&op, bitcoin.Script{0x01, 0x31}))
		op2 := vkOutpoint(3)
		b.AddTxIn(wire.NewTxIn(&op2, bitcoin.Script{0x01, 0x32}))
		if relB {
			b.AddTxOut(wire.NewTxOut(777, vkRelevantScript()))
		} else {
			b.AddTxOut(wire.NewTxOut(777, vkIrrelevantScript()))
		}
		b.LockTime = 31
	} else {
		b = vkTx(31, []int{2}, relB)
	}
	txs := []*wire.MsgTx{a, b}
	rel := []bool{relA, relB}
	ids := []bitcoin.Hash32{*a.TxHash(), *b.TxHash()}
	// was the transaction ever presented while it could be delivered?
	deliverable := []bool{false, false}
	confirmed := []bool{false, false}
	aStoredWhenBSeen := false
	bFirst := true

	steps := []string{"e0", "e1", "e2", "e3"}
	height := 0
	for e := 0; e < nEvents; e++ {
		w := verifrt.Choose(steps[e]+".tx", 2)
		tx := txs[w]
		src := verifrt.Choose(steps[e]+".source", 7)
		var herr error
		noteSeen := func(can bool) {
			if can && !confirmed[w] {
				if w == 1 && bFirst && !deliverable[1] {
					// A's stored copy exists iff A was relevant and already delivered
					aStoredWhenBSeen = rel[0] && len(rec.of("tx", ids[0])) > 0
					bFirst = false
				}
				deliverable[w] = true
			}
		}
		switch src {
		case 0: // trusted peer: inventory, then the body
			inv := wire.NewMsgInv()
			h := ids[w]
			inv.AddInvVect(wire.NewInvVect(wire.InvTypeTx, &h))
			_, herr = node.messageHandlers[wire.CmdInv].Handle(ctx, inv)
			if herr == nil {
				_, herr = node.messageHandlers[wire.CmdTx].Handle(ctx, tx)
			}
			noteSeen(inSync)
		case 1: // trusted peer: bare body
			_, herr = node.messageHandlers[wire.CmdTx].Handle(ctx, tx)
			noteSeen(inSync)
		case 2: // untrusted peer 1
			_, herr = u1.messageHandlers[wire.CmdTx].Handle(ctx, tx)
			noteSeen(true) // a verified untrusted peer's transactions are accepted
		case 3: // untrusted peer 2
			_, herr = u2.messageHandlers[wire.CmdTx].Handle(ctx, tx)
			noteSeen(true)
		case 4: // submitted locally (fed back through the node)
			herr = node.HandleTx(ctx, tx)
			noteSeen(true)
		case 6: // only announced (inventory from the trusted peer); the body does not follow
			inv := wire.NewMsgInv()
			h := ids[w]
			inv.AddInvVect(wire.NewInvVect(wire.InvTypeTx, &h))
			_, herr = node.messageHandlers[wire.CmdInv].Handle(ctx, inv)
			verifrt.Reach("C03.event.announced-only")
		case 5: // first seen inside a processed block
			verifrt.Assume(!confirmed[w])
			height++
			blk := vkBlock(*node.blocks.LastHash(), height, []*wire.MsgTx{tx})
			noteSeen(true)
			herr = node.ProcessBlock(ctx, blk)
			confirmed[w] = true
			verifrt.Reach("C03.event.block")
		}
		verifrt.Sig("event", src, "err")
		verifrt.Assert(herr == nil, "C03.event.no-error")
		derr := vkDrainTxs(ctx, k)
		verifrt.Sig("event", src, "process-err")
		verifrt.Assert(derr == nil, "C03.event.processing-no-error")
	}

	for w := range txs {
		news := rec.of("tx", ids[w])
		ups := rec.of("update", ids[w])
		if !rel[w] {
			verifrt.Sig("delivery", "irrelevant")
			verifrt.Assert(len(news) == 0 && len(ups) == 0, "C03.delivery.no-non-matching-transaction-is-delivered")
			continue
		}
		verifrt.Sig("delivery", "duplicates")
		verifrt.Assert(len(news) <= 1, "C03.delivery.new-at-most-once")
		if deliverable[w] {
			verifrt.Sig("delivery", "missing")
			verifrt.Assert(len(news) == 1, "C03.delivery.every-matching-transaction-is-delivered")
			verifrt.Reach("C03.delivery.delivered")
		}
		if len(news) != 1 {
			continue
		}
		got := news[0].tx
		verifrt.Sig("delivery", "outputs-count")
		verifrt.Assert(len(got.Outputs) == len(txs[w].TxIn), "C03.delivery.one-spent-output-per-input")
		if len(got.Outputs) != len(txs[w].TxIn) {
			continue
		}
		for i, in := range txs[w].TxIn {
			verifrt.Sig("delivery", "output-nil")
			verifrt.Assert(got.Outputs[i] != nil, "C03.delivery.spent-output-present")
			if got.Outputs[i] == nil {
				continue
			}
			if w == 1 && chained && i == 0 && aStoredWhenBSeen {
				verifrt.Sig("delivery", "output-from-store")
				verifrt.Assert(got.Outputs[i].Value == a.TxOut[0].Value, "C03.delivery.spent-output-is-the-stored-parents-output")
				verifrt.Reach("C03.delivery.parent-from-store")
			} else {
				verifrt.Sig("delivery", "output-from-fetcher")
				verifrt.Assert(got.Outputs[i].Value == vkFetchedValue(in.PreviousOutPoint), "C03.delivery.spent-output-is-the-fetched-output")
			}
		}
	}
	verifrt.Reach("C03.delivery.done")
}
