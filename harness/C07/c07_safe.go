//verif:pkg internal/spynode
//verif:kit memstore nodekit interleave
package spynode

// C07 — safe only when warranted, once, and never after unsafe.

import (
	"context"
	"time"

	"github.com/tokenized/pkg/bitcoin"
	"github.com/tokenized/pkg/wire"
	"github.com/tokenized/spynode/internal/handlers"

	"github.com/tokenized/spynode/internal/verifrt"
)

// c07DelayCheck runs exactly one iteration of the real checkTxDelays loop.
func c07DelayCheck(ctx context.Context, node *Node) {
	sleeps := 0
	verifrt.OnSleep(func(d time.Duration) {
		sleeps++
		if sleeps >= 2 {
			node.lock.Lock()
			node.stopping = true
			node.lock.Unlock()
		}
	})
	node.checkTxDelays(ctx)
	verifrt.OnSleep(nil)
	node.lock.Lock()
	node.stopping = false
	node.lock.Unlock()
}

func VerifHarness_C07_safe() {
	ctx := context.Background()
	nEvents := 4
	if verifrt.Thorough() {
		nEvents = 5
	}
	k, err := vkNewNode(ctx, nil)
	verifrt.Assert(err == nil, "C07.kit.node-loads")
	node, rec := k.node, k.rec
	node.state.SetInSync()
	delays := []int{1, 100, 2000, 5000}
	delayMs := delays[verifrt.Choose("safe-delay-ms", len(delays))]
	node.config.SafeTxDelay = delayMs
	delayNs := int64(delayMs) * 1_000_000

	t := vkTx(70, []int{0}, true)       // the transaction under observation (relevant)
	rival := vkTx(71, []int{0, 1}, true) // spends the same outpoint 0
	tid, rid := *t.TxHash(), *rival.TxHash()

	firstSeen := int64(-1)
	vouchedAt := int64(-1) // when the trusted peer first vouched for t (the node may count the delay from there)
	vouched := false       // the trusted peer announced or sent t
	conflict := false // a conflicting transaction is known
	local := false
	confirmedT := false
	inPool := false
	steps := []string{"e0", "e1", "e2", "e3", "e4"}
	for e := 0; e < nEvents; e++ {
		d := verifrt.IntRange(steps[e]+".delay-ns", 0, 6_000_000_000)
		verifrt.Advance(time.Duration(d))
		mark := len(rec.events)
		ev := verifrt.Choose(steps[e]+".event", 7)
		var perr error
		switch ev {
		case 0: // body of t from an untrusted peer
			perr = node.processUnconfirmedTx(ctx, handlers.TxData{Msg: t, Trusted: false, ConfirmedHeight: -1})
			if firstSeen < 0 && !confirmedT {
				firstSeen = verifrt.NowNanos()
			}
			inPool = !confirmedT || inPool
		case 1: // trusted peer announces t by inventory
			inv := wire.NewMsgInv()
			h := tid
			inv.AddInvVect(wire.NewInvVect(wire.InvTypeTx, &h))
			_, perr = node.messageHandlers[wire.CmdInv].Handle(ctx, inv)
			if !confirmedT {
				if !vouched {
					vouchedAt = verifrt.NowNanos()
				}
				vouched = true
			}
		case 2: // body of t from the trusted peer
			perr = node.processUnconfirmedTx(ctx, handlers.TxData{Msg: t, Trusted: true, ConfirmedHeight: -1})
			if firstSeen < 0 && !confirmedT {
				firstSeen = verifrt.NowNanos()
			}
			if !confirmedT {
				if !vouched {
					vouchedAt = verifrt.NowNanos()
				}
				vouched = true
			}
		case 3: // a conflicting transaction arrives
			perr = node.processUnconfirmedTx(ctx, handlers.TxData{Msg: rival, Trusted: verifrt.Choose(steps[e]+".rival-trusted", 2) == 1, ConfirmedHeight: -1})
			conflict = true
		case 4: // the delay checker runs
			c07DelayCheck(ctx, node)
			verifrt.Reach("C07.event.delay-check")
		case 5: // a block confirms t
			verifrt.Assume(!confirmedT)
			block := vkBlock(*node.blocks.LastHash(), 1+e, []*wire.MsgTx{t})
			perr = node.ProcessBlock(ctx, block)
			confirmedT = true
			verifrt.Reach("C07.event.confirmed")
		case 6: // t is submitted locally (SendTx path without the broadcast)
			verifrt.Assume(firstSeen < 0 && !confirmedT)
			perr = node.processUnconfirmedTx(ctx, handlers.TxData{Msg: t, Trusted: true, Safe: true, ConfirmedHeight: -1})
			firstSeen = verifrt.NowNanos()
			local = true
			vouched = true
		}
		verifrt.Sig("event", ev, "err")
		verifrt.Assert(perr == nil, "C07.event.no-error")
		now := verifrt.NowNanos()
		// invariants on everything reported in this step
		for _, n := range rec.events[mark:] {
			if n.kind != "tx" && n.kind != "update" {
				continue
			}
			verifrt.Sig("notification", "both")
			verifrt.Assert(!(n.state.Safe && n.state.UnSafe), "C07.state.never-safe-and-unsafe")
			verifrt.Sig("notification", "cancelled")
			verifrt.Assert(!n.state.Cancelled || n.state.UnSafe, "C07.state.cancelled-implies-unsafe")
			if n.txid != tid {
				continue
			}
			// earlier unsafe / cancelled => never safe again
			for _, p := range rec.events[:n.at] {
				if p.txid == tid && (p.kind == "tx" || p.kind == "update") && (p.state.UnSafe || p.state.Cancelled) {
					verifrt.Sig("notification", "safe-after-unsafe")
					verifrt.Assert(!n.state.Safe, "C07.state.no-safe-after-unsafe")
				}
			}
			if n.state.Safe && !n.hasProof && !local {
				// an unconfirmed safe report for a transaction that was not submitted locally
				verifrt.Sig("safe", "unvouched")
				verifrt.Assert(vouched, "C07.safe.only-if-trusted-peer-vouched")
				verifrt.Sig("safe", "conflict")
				verifrt.Assert(!conflict, "C07.safe.only-without-known-conflict")
				verifrt.Sig("safe", "early")
				verifrt.Assert(firstSeen >= 0 && now-firstSeen >= delayNs, "C07.safe.only-after-the-safe-delay")
				// at most one unconfirmed safe report
				for _, p := range rec.events[:n.at] {
					if p.txid == tid && (p.kind == "tx" || p.kind == "update") && p.state.Safe && !p.hasProof {
						verifrt.Sig("safe", "twice")
						verifrt.Assert(false, "C07.safe.reported-once")
					}
				}
				verifrt.Reach("C07.safe.reported")
			}
		}
		// liveness: when warranted, the next delay check reports it
		if ev == 4 && firstSeen >= 0 && !local && !confirmedT && vouched && !conflict {
			already := false
			for _, p := range rec.events[:mark] {
				if p.txid == tid && p.state.Safe {
					already = true
				}
			}
			reported := false
			for _, n := range rec.events[mark:] {
				if n.txid == tid && n.kind == "update" && n.state.Safe {
					reported = true
				}
			}
			if !already {
				// elapsed is measured at the moment the checker looked (one poll period after the advance)
				// ("within a bounded time": the delay counted from the first sighting or, when the
				// trusted peer vouched later than that, from its vouching)
				base := firstSeen
				if vouchedAt > base {
					base = vouchedAt
				}
				due := now-base > delayNs+200_000_000
				verifrt.Sig("safe", "missed")
				verifrt.Assert(verifrt.Implies(due, reported), "C07.safe.reported-within-one-poll-when-warranted")
			}
		}
		_ = rid
		_ = inPool
	}
	verifrt.Reach("C07.safe.done")
}

var _ = bitcoin.Hash32{}


// VerifHarness_C07_race: the delay checker has fetched the state of a transaction it is about to
// report safe when, at the interleaving point before it writes the state back, another goroutine
// processes a conflicting transaction, or a block that confirms the transaction or its rival.
func VerifHarness_C07_race() {
	ctx := context.Background()
	k, err := vkNewNode(ctx, nil)
	verifrt.Assert(err == nil, "C07.kit.node-loads")
	node, rec := k.node, k.rec
	node.state.SetInSync()
	node.config.SafeTxDelay = 1000
	t := vkTx(70, []int{0}, true)
	rival := vkTx(71, []int{0, 1}, true)
	tid := *t.TxHash()
	perr := node.processUnconfirmedTx(ctx, handlers.TxData{Msg: t, Trusted: true, ConfirmedHeight: -1})
	verifrt.Assert(perr == nil, "C07.event.no-error")
	verifrt.Advance(3 * time.Second)
	what := verifrt.Choose("interleaved-step", 4) // 0 nothing, 1 rival arrives, 2 block confirms t, 3 block confirms the rival
	ran, serialised := false, false
	other := func() {
		switch what {
		case 1:
			node.processUnconfirmedTx(ctx, handlers.TxData{Msg: rival, Trusted: true, ConfirmedHeight: -1})
		case 2:
			node.ProcessBlock(ctx, vkBlock(*node.blocks.LastHash(), 1, []*wire.MsgTx{t}))
		case 3:
			node.ProcessBlock(ctx, vkBlock(*node.blocks.LastHash(), 1, []*wire.MsgTx{rival}))
		}
		ran = true
	}
	early := verifrt.Choose("at-the-first-interleaving-point", 2) == 1 // before the checker takes the lock / inside it
	vkInterleave = func(point string) {
		if early != (point == "checkTxDelays: newly safe list taken, lock not yet held") {
			return
		}
		if what != 0 && !ran && !serialised {
			serialised = verifrt.RunUntilBlocked(other)
			verifrt.Reach("C07.race.interleaved")
		}
	}
	c07DelayCheck(ctx, node)
	vkInterleave = nil
	if serialised && !verifrt.Symbolic() {
		time.Sleep(150 * time.Millisecond) // natively the waiting step proceeds by itself
	}
	if what != 0 && !ran {
		other()
	}
	sawBad := false // unsafe or cancelled reported for t
	// "reported safe once": the state goes from not-safe to safe at most once, and no update repeats
	// the state the handlers were given just before (a confirmation that keeps the safe flag is not
	// a second report; a second update saying the same thing is)
	safeReports, repeated := 0, false
	var prev *vkEvent
	for i := range rec.events {
		n := rec.events[i]
		if n.txid != tid || (n.kind != "tx" && n.kind != "update") {
			continue
		}
		if n.state.Safe && (prev == nil || !prev.state.Safe) {
			safeReports++
		}
		if prev != nil && n.kind == "update" && n.state.Safe == prev.state.Safe && n.state.UnSafe == prev.state.UnSafe && n.state.Cancelled == prev.state.Cancelled && n.hasProof == prev.hasProof && n.state.UnconfirmedDepth == prev.state.UnconfirmedDepth {
			repeated = true
		}
		prev = &rec.events[i]
		verifrt.Sig("race", what, "both")
		verifrt.Assert(!(n.state.Safe && n.state.UnSafe), "C07.state.never-safe-and-unsafe")
		if sawBad {
			verifrt.Sig("race", what, "safe-after-unsafe")
			verifrt.Assert(!n.state.Safe, "C07.state.no-safe-after-unsafe")
		}
		if n.state.UnSafe || n.state.Cancelled {
			sawBad = true
		}
	}
	verifrt.Sig("race", what, "safe-twice")
	verifrt.Assert(safeReports <= 1 && !repeated, "C07.safe.reported-once")
	// what the node stored agrees with what it reported last
	stored, ferr := vkFetchState(ctx, node, tid)
	verifrt.Assert(ferr == nil, "C07.race.state-stored")
	if ferr == nil && sawBad {
		verifrt.Sig("race", what, "stored")
		verifrt.Assert(stored.UnSafe && !stored.Safe, "C07.race.stored-state-keeps-the-unsafe-report")
	}
	if ferr == nil && what == 2 {
		verifrt.Sig("race", what, "proof-kept")
		verifrt.Assert(stored.MerkleProof != nil, "C07.race.stored-state-keeps-the-confirmation")
	}
	verifrt.Reach("C07.race.done")
}


// VerifHarness_C07_irrelevant_rival: the conflicting transaction does not match the client's
// subscriptions (it is never delivered itself), in every order with the sightings of t and the
// delay checker: t must not be reported safe while that conflict is known.
func VerifHarness_C07_irrelevant_rival() {
	ctx := context.Background()
	k, err := vkNewNode(ctx, nil)
	verifrt.Assert(err == nil, "C07.kit.node-loads")
	node, rec := k.node, k.rec
	node.state.SetInSync()
	node.config.SafeTxDelay = 1000
	t := vkTx(70, []int{0}, true)
	rival := vkTx(71, []int{0, 1}, false) // spends outpoint 0 as well, not relevant
	tid := *t.TxHash()
	conflict := false
	nEvents := 3
	if verifrt.Thorough() {
		nEvents = 4
	}
	for e := 0; e < nEvents; e++ {
		mark := len(rec.events)
		var perr error
		switch verifrt.Choose("event", 5) {
		case 0:
			perr = node.processUnconfirmedTx(ctx, handlers.TxData{Msg: rival, Trusted: verifrt.Choose("rival-trusted", 2) == 1, ConfirmedHeight: -1})
			conflict = true
		case 1:
			perr = node.processUnconfirmedTx(ctx, handlers.TxData{Msg: t, Trusted: true, ConfirmedHeight: -1})
		case 2:
			perr = node.processUnconfirmedTx(ctx, handlers.TxData{Msg: t, Trusted: false, ConfirmedHeight: -1})
		case 3:
			inv := wire.NewMsgInv()
			h := tid
			inv.AddInvVect(wire.NewInvVect(wire.InvTypeTx, &h))
			_, perr = node.messageHandlers[wire.CmdInv].Handle(ctx, inv)
		case 4:
			verifrt.Advance(3 * time.Second)
			c07DelayCheck(ctx, node)
		}
		verifrt.Assert(perr == nil, "C07.event.no-error")
		for _, n := range rec.events[mark:] {
			if n.txid != tid || (n.kind != "tx" && n.kind != "update") {
				continue
			}
			verifrt.Sig("irrelevant-rival", "safe-with-conflict")
			verifrt.Assert(!(n.state.Safe && !n.hasProof && conflict), "C07.safe.only-without-known-conflict")
			verifrt.Sig("irrelevant-rival", "both")
			verifrt.Assert(!(n.state.Safe && n.state.UnSafe), "C07.state.never-safe-and-unsafe")
		}
	}
	verifrt.Reach("C07.irrelevant-rival.done")
}
