//verif:pkg internal/spynode
//verif:kit memstore nodekit synckit worldkit interleave
package spynode

// C07 — a transaction reported unsafe (or cancelled) stays not-safe across a reorganisation that
// orphans the block that confirmed it and confirms it again.

import (
	"context"

	"github.com/tokenized/pkg/wire"
	"github.com/tokenized/spynode/internal/handlers"

	"github.com/tokenized/spynode/internal/verifrt"
)

// VerifHarness_C07_reorg: t is delivered and then double spent by a rival (t is reported unsafe);
// the trusted peer's block a1 (on a0) confirms t (the rival is cancelled and leaves the mempool); the peer
// then reorganises to b1-b2, b1 confirming t again (or the rival, or neither).  C03 allows the
// re-confirmation to be delivered as a new transaction; C07 still binds it: after an unsafe or
// cancelled report no later notification for that transaction says safe.
func VerifHarness_C07_reorg() {
	ctx := context.Background()
	k, err := vkNewNode(ctx, nil)
	verifrt.Assert(err == nil, "C07.kit.node-loads")
	k.node.state.SetVersionReceived()
	k.node.state.MarkConnected()
	t := vkTx(70, []int{0}, true)
	rival := vkTx(71, []int{0, 1}, true)
	tid, rid := *t.TxHash(), *rival.TxHash()
	inA := []*wire.MsgTx{t}
	var inB []*wire.MsgTx
	switch verifrt.Choose("replacement-block-confirms", 3) {
	case 0:
		inB = []*wire.MsgTx{t}
	case 1:
		inB = []*wire.MsgTx{rival}
	}
	if verifrt.Choose("first-block-confirms", 2) == 1 {
		inA = []*wire.MsgTx{rival}
	}
	tree := vkNewTree(*k.node.blocks.LastHash())
	tree.add("a0", "", nil)
	tree.add("a1", "a0", inA)
	tree.add("b1", "a0", inB)
	tree.add("b2", "b1", nil)
	w := &c01World{ctx: ctx, k: k, tree: tree, heard: map[string]bool{}}
	w.peer = vkNewPeer(tree, "a0")
	w.settle(3)
	verifrt.Assert(k.node.state.IsReady(), "C07.reorg.in-sync-at-the-start")

	perr := k.node.processUnconfirmedTx(ctx, handlers.TxData{Msg: t, Trusted: true, ConfirmedHeight: -1})
	verifrt.Assert(perr == nil, "C07.event.no-error")
	perr = k.node.processUnconfirmedTx(ctx, handlers.TxData{Msg: rival, Trusted: true, ConfirmedHeight: -1})
	verifrt.Assert(perr == nil, "C07.event.no-error")

	w.peer.setBest("a1")
	w.settle(4)
	verifrt.Assert(w.converged(), "C07.reorg.first-block-processed")
	w.peer.setBest("b2")
	w.settle(6)
	verifrt.Sig("reorg", "converged")
	verifrt.Assert(w.converged(), "C07.reorg.node-follows-the-reorganisation")
	verifrt.Reach("C07.reorg.reorganised")

	for _, id := range []struct {
		name string
		txid [32]byte
	}{{"t", tid}, {"rival", rid}} {
		bad := false
		for _, n := range k.rec.events {
			if n.txid != id.txid || (n.kind != "tx" && n.kind != "update") {
				continue
			}
			verifrt.Sig("reorg", id.name, "both")
			verifrt.Assert(!(n.state.Safe && n.state.UnSafe), "C07.state.never-safe-and-unsafe")
			verifrt.Sig("reorg", id.name, "cancelled")
			verifrt.Assert(!n.state.Cancelled || n.state.UnSafe, "C07.state.cancelled-implies-unsafe")
			if bad {
				verifrt.Sig("reorg", id.name, "safe-after-unsafe")
				verifrt.Assert(!n.state.Safe, "C07.state.no-safe-after-unsafe")
			}
			if n.state.UnSafe || n.state.Cancelled {
				bad = true
			}
		}
		verifrt.Assert(bad, "C07.reorg.both-rivals-were-reported-unsafe")
	}
	verifrt.Reach("C07.reorg.done")
}

// VerifHarness_C07_resubmit: the client feeds a transaction back through the node (Node.HandleTx /
// SendTx mark it safe: it is the client's own) although the node has reported it unsafe before - it
// was double spent, and then confirmed or not.  The notification this produces must respect the
// flag invariants like any other.
func VerifHarness_C07_resubmit() {
	ctx := context.Background()
	k, err := vkNewNode(ctx, nil)
	verifrt.Assert(err == nil, "C07.kit.node-loads")
	node, rec := k.node, k.rec
	node.state.SetInSync()
	t := vkTx(70, []int{0}, true)
	rival := vkTx(71, []int{0, 1}, true)
	tid := *t.TxHash()
	perr := node.processUnconfirmedTx(ctx, handlers.TxData{Msg: t, Trusted: true, ConfirmedHeight: -1})
	verifrt.Assert(perr == nil, "C07.event.no-error")
	perr = node.processUnconfirmedTx(ctx, handlers.TxData{Msg: rival, Trusted: true, ConfirmedHeight: -1})
	verifrt.Assert(perr == nil, "C07.event.no-error")
	switch verifrt.Choose("then", 3) {
	case 1: // t confirms (the rival is cancelled)
		verifrt.Assert(node.ProcessBlock(ctx, vkBlock(*node.blocks.LastHash(), 1, []*wire.MsgTx{t})) == nil, "C07.event.no-error")
	case 2: // the rival confirms (t is cancelled)
		verifrt.Assert(node.ProcessBlock(ctx, vkBlock(*node.blocks.LastHash(), 1, []*wire.MsgTx{rival})) == nil, "C07.event.no-error")
	}
	perr = node.processUnconfirmedTx(ctx, handlers.TxData{Msg: t, Trusted: true, Safe: true, ConfirmedHeight: -1})
	verifrt.Assert(perr == nil, "C07.event.no-error")
	bad := false
	for _, n := range rec.events {
		if n.txid != tid || (n.kind != "tx" && n.kind != "update") {
			continue
		}
		verifrt.Sig("resubmit", "both")
		verifrt.Assert(!(n.state.Safe && n.state.UnSafe), "C07.state.never-safe-and-unsafe")
		verifrt.Sig("resubmit", "cancelled")
		verifrt.Assert(!n.state.Cancelled || n.state.UnSafe, "C07.state.cancelled-implies-unsafe")
		if bad {
			verifrt.Sig("resubmit", "safe-after-unsafe")
			verifrt.Assert(!n.state.Safe, "C07.state.no-safe-after-unsafe")
		}
		if n.state.UnSafe || n.state.Cancelled {
			bad = true
		}
	}
	verifrt.Assert(bad, "C07.resubmit.t-was-reported-unsafe")
	verifrt.Reach("C07.resubmit.done")
}
