//verif:pkg pkg/client
package client

// C15 — a Tx whose spent-output list does not match its inputs.  The output count is not on the
// wire (Deserialize reads one output per input), so such a value cannot round-trip: Serialize has to
// refuse it; writing it would mis-frame the stream.

import (
	"bytes"

	"github.com/tokenized/pkg/bitcoin"
	"github.com/tokenized/pkg/wire"

	"github.com/tokenized/spynode/internal/verifrt"
)

func VerifHarness_C15_tx_spent_outputs() {
	nIn := verifrt.Choose("inputs", 3)
	nOut := verifrt.Choose("spent-outputs", 4)
	tx := wire.NewMsgTx(1)
	for i := 0; i < nIn; i++ {
		var h bitcoin.Hash32
		h[0] = byte(i + 1)
		tx.AddTxIn(wire.NewTxIn(wire.NewOutPoint(&h, uint32(i)), []byte{0x51}))
	}
	tx.AddTxOut(wire.NewTxOut(uint64(verifrt.U32("value")), []byte{0x52}))
	m := &Tx{ID: verifrt.U64("id"), Tx: tx, State: TxState{Safe: verifrt.Bool("safe")}}
	for i := 0; i < nOut; i++ {
		m.Outputs = append(m.Outputs, wire.NewTxOut(uint64(100+i), []byte{byte(0x53 + i)}))
	}
	var buf bytes.Buffer
	msg := Message{Payload: m}
	var err error
	panicked, what := verifrt.Catch(func() { err = msg.Serialize(&buf) })
	verifrt.Note("Tx with %d inputs and %d spent outputs: panic=%v %s err=%v", nIn, nOut, panicked, what, err)
	verifrt.Sig("Tx", nIn, nOut, "serialize")
	verifrt.Assert(!panicked, "C15.tx-outputs.serialize-no-panic")
	if panicked {
		return
	}
	if err != nil {
		verifrt.Sig("Tx", nIn, nOut, "refused")
		verifrt.Assert(nIn != nOut, "C15.tx-outputs.valid-value-serialises")
		verifrt.Reach("C15.tx-outputs.mismatch-refused")
		return
	}
	// written: then the stream must still be framed - this message followed by a ping decodes to
	// this message and the ping
	ping := Message{Payload: &Ping{TimeStamp: 7}}
	verifrt.Assert(ping.Serialize(&buf) == nil, "C15.tx-outputs.ping-serialises")
	r := bytes.NewReader(buf.Bytes())
	var d1, d2 Message
	var e1, e2 error
	panicked, what = verifrt.Catch(func() {
		e1 = d1.Deserialize(r)
		if e1 == nil {
			e2 = d2.Deserialize(r)
		}
	})
	verifrt.Sig("Tx", nIn, nOut, "framing")
	verifrt.Assert(!panicked && e1 == nil && e2 == nil && r.Len() == 0, "C15.tx-outputs.written-value-keeps-the-stream-framed")
	if panicked || e1 != nil || e2 != nil {
		return
	}
	got, ok := d1.Payload.(*Tx)
	verifrt.Sig("Tx", nIn, nOut, "equal")
	verifrt.Assert(ok && got.ID == m.ID && len(got.Outputs) == len(m.Outputs) && got.State.Safe == m.State.Safe, "C15.tx-outputs.written-value-round-trips")
	p2, ok2 := d2.Payload.(*Ping)
	verifrt.Assert(ok2 && p2.TimeStamp == 7, "C15.tx-outputs.next-message-intact")
	verifrt.Reach("C15.tx-outputs.done")
}
