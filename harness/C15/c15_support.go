//verif:pkg pkg/client
package client

// C15 — hand-written part of the round-trip harness.  The per-type fill and
// equality functions and the VerifHarness_C15_rt_<Type> entries are generated
// from the current struct definitions on every run (engine/cmd/gosym/gen.go).

import (
	"bytes"
	"encoding/hex"
	"io"

	"github.com/tokenized/pkg/bitcoin"

	"github.com/tokenized/spynode/internal/verifrt"
)

type c15Codec interface {
	Serialize(io.Writer) error
	Deserialize(io.Reader) error
	Type() uint64
}

func c15MaxList() int {
	if verifrt.Thorough() {
		return 3
	}
	return 2
}

func c15MaxBytes() int {
	if verifrt.Thorough() {
		return 3
	}
	return 2
}

func c15MaxTail() int {
	if verifrt.Thorough() {
		return 3
	}
	return 2
}

// Focus mode: every scalar leaf of the value is visited in fill order; at most
// one of them (chosen nondeterministically as it is reached) is symbolic (all
// values), the others hold fixed distinct values.  In the thorough tier an
// additional mode makes every leaf symbolic for values with few leaves.
var (
	c15AllSym     bool
	c15FocusTaken bool
	c15Leaf       int
)

func c15ChooseFocus() {
	c15Leaf = 0
	c15FocusTaken = false
	c15AllSym = false
	c15ListBudget, c15BytesBudget = 3, 3
	maxPreallocate = 1
	if verifrt.Thorough() {
		if verifrt.Choose("real-preallocation-cap", 2) == 1 {
			maxPreallocate = 1000
		}
		c15ListBudget, c15BytesBudget = 4, 3
		c15AllSym = verifrt.Choose("all-leaves-symbolic", 2) == 1
	}
}

func c15CheckFocus() {
	if c15AllSym {
		verifrt.Assume(c15Leaf <= 6) // all-symbolic only for small values
	}
}

func c15Sym() bool {
	c15Leaf++
	if c15AllSym {
		return true
	}
	if c15FocusTaken {
		return false
	}
	if verifrt.Choose("focus-here", 2) == 1 {
		c15FocusTaken = true
		return true
	}
	return false
}

// Structure budgets: list elements and variable-length bytes summed over the
// whole value (keeps the structural case split from multiplying across
// nested lists).
var (
	c15ListBudget  int
	c15BytesBudget int
)

func c15ListLen(name string) int {
	max := c15MaxList()
	if c15ListBudget < max {
		max = c15ListBudget
	}
	n := verifrt.Choose(name+".len", max+1)
	c15ListBudget -= n
	return n
}

func c15BytesLen(name string) int {
	max := c15MaxBytes()
	if c15BytesBudget < max {
		max = c15BytesBudget
	}
	n := verifrt.Choose(name+".len", max+1)
	c15BytesBudget -= n
	return n
}

func c15Fixed() uint64 { return uint64(c15Leaf)*0x0101010101010101 + 0x1b }

func c15Bool(name string) bool {
	if c15Sym() {
		return verifrt.Bool(name)
	}
	return c15Leaf%2 == 0
}
func c15U8(name string) uint8 {
	if c15Sym() {
		return verifrt.U8(name)
	}
	return uint8(c15Fixed())
}
func c15U16(name string) uint16 {
	if c15Sym() {
		return verifrt.U16(name)
	}
	return uint16(c15Fixed())
}
func c15U32(name string) uint32 {
	if c15Sym() {
		return verifrt.U32(name)
	}
	return uint32(c15Fixed())
}
func c15U64(name string) uint64 {
	if c15Sym() {
		return verifrt.U64(name)
	}
	return c15Fixed()
}
func c15I32(name string) int32 { return int32(c15U32(name)) }
func c15I64(name string) int64 { return int64(c15U64(name)) }
func c15Int(name string) int   { return int(c15U64(name)) }
func c15Bytes(name string, n int) []byte {
	if c15Sym() {
		return verifrt.Bytes(name, n)
	}
	out := make([]byte, n)
	for i := range out {
		out[i] = byte(c15Leaf*7 + i*3 + 1)
	}
	return out
}

func c15Itoa(i int) string {
	return string([]byte{byte('0' + i/10), byte('0' + i%10)})
}

// Well-formed secp256k1 public keys (G, 2G, 3G): keys are opaque blobs to the
// codec, so a small set of real keys keeps native replay exact.
var c15Keys = []string{
	"0279be667ef9dcbbac55a06295ce870b07029bfcdb2dce28d959f2815b16f81798",
	"02c6047f9441ed7d6d3045406e95c07cd85c778e4b8cef3ca7abac09b95c709ee5",
	"02f9308a019258c31049344f85f89d5229b531c845836f99b08601f113bce036f9",
}

func c15FillPublicKey(p *bitcoin.PublicKey, name string) {
	b, _ := hex.DecodeString(c15Keys[verifrt.Choose(name, len(c15Keys))])
	err := p.SetBytes(b)
	verifrt.Assume(err == nil)
}

// c15FillSignature: R and S are 1..2 byte magnitudes with symbolic content
// (non-zero leading byte), which exercises the DER padding rule.
func c15FillSignature(p *bitcoin.Signature, name string) {
	rb := c15Bytes(name+".R", 1+verifrt.Choose(name+".R.len", 2))
	verifrt.Assume(rb[0] != 0)
	p.R.SetBytes(rb)
	sb := c15Bytes(name+".S", 1+verifrt.Choose(name+".S.len", 2))
	verifrt.Assume(sb[0] != 0)
	p.S.SetBytes(sb)
}

// c15Valid is the validity predicate of a payload (what Serialize may insist on).
func c15Valid(m c15Codec) bool {
	switch v := m.(type) {
	case *Tx:
		return len(v.Outputs) == len(v.Tx.TxIn)
	}
	return true
}

func c15RoundTrip(name string, m c15Codec, mk func() c15Codec, eq func(a, b c15Codec) bool) {
	verifrt.Assume(c15Valid(m)) // the other values: VerifHarness_C15_tx_spent_outputs
	verifrt.Reach("C15.rt.value-built")
	// type code / name / payload mapping for this type
	t := m.Type()
	verifrt.Sig(name, "mapping")
	verifrt.Assert(NameForMessageType(t) != "", "C15.map.type-has-name")
	fresh := PayloadForType(t)
	verifrt.Assert(fresh != nil && fresh.Type() == t, "C15.map.payload-for-type")

	var buf bytes.Buffer
	var err error
	msg := Message{Payload: m.(MessagePayload)}
	panicked, what := verifrt.Catch(func() { err = msg.Serialize(&buf) })
	verifrt.Note("%s serialize: panic=%v %s err=%v", name, panicked, what, err)
	verifrt.Sig(name, "serialize")
	verifrt.Assert(!panicked && err == nil, "C15.rt.serialize-ok")
	if panicked || err != nil {
		return
	}
	n := buf.Len()
	tailLen := verifrt.Choose("tail.len", c15MaxTail()+1)
	tail := verifrt.Bytes("tail", tailLen)
	all := append(append([]byte{}, buf.Bytes()...), tail...)
	r := bytes.NewReader(all)
	var d Message
	panicked, what = verifrt.Catch(func() { err = d.Deserialize(r) })
	verifrt.Note("%s deserialize: panic=%v %s err=%v", name, panicked, what, err)
	verifrt.Sig(name, "decode-panic")
	verifrt.Assert(!panicked, "C15.rt.decode-no-panic")
	if panicked {
		return
	}
	verifrt.Sig(name, "decode-error")
	verifrt.Assert(err == nil, "C15.rt.decode-ok")
	if err != nil {
		return
	}
	verifrt.Sig(name, "consumed")
	verifrt.Assert(r.Len() == tailLen, "C15.rt.consumes-exactly-the-bytes-written")
	verifrt.Sig(name, "type")
	verifrt.Assert(d.Payload != nil && d.Payload.Type() == t, "C15.rt.same-type")
	got, ok := d.Payload.(c15Codec)
	if !ok || got.Type() != t {
		return
	}
	verifrt.Sig(name, "equal")
	verifrt.Assert(eq(m, got), "C15.rt.decoded-equals-original")

	// every strict prefix of the encoding fails with an error, no panic
	enc := all[:n]
	for p := 0; p < n; p++ {
		if !verifrt.Thorough() && p >= 16 && p%4 != 0 && p < n-8 {
			continue // quick tier: long encodings are cut at every 4th position in the middle
		}
		var x Message
		var perr error
		pp, pw := verifrt.Catch(func() { perr = x.Deserialize(bytes.NewReader(enc[:p])) })
		if pp {
			verifrt.Note("%s prefix %d/%d: panic %s", name, p, n, pw)
		}
		verifrt.Sig(name, "prefix-panic")
		verifrt.Assert(!pp, "C15.prefix.no-panic")
		verifrt.Sig(name, "prefix-accepted")
		verifrt.Assert(perr != nil, "C15.prefix.is-error")
	}
	verifrt.Reach("C15.rt.done")
}

// VerifHarness_C15_mapping: type codes, payload types and names map one-to-one
// for a fully symbolic type code.
func VerifHarness_C15_mapping() {
	t := verifrt.U64("type")
	p := PayloadForType(t)
	name := NameForMessageType(t)
	if p != nil {
		verifrt.Sig("mapping", "payload-type")
		verifrt.Assert(p.Type() == t, "C15.map.payload-type-is-its-code")
		verifrt.Sig("mapping", "payload-name")
		verifrt.Assert(name != "", "C15.map.payload-has-name")
		verifrt.Reach("C15.map.known-code")
	} else {
		verifrt.Sig("mapping", "name-without-payload")
		verifrt.Assert(name == "", "C15.map.name-has-payload")
		verifrt.Reach("C15.map.unknown-code")
	}
	// names are unique
	seen := map[string]uint64{}
	for code, nm := range MessageTypeNames {
		if other, dup := seen[nm]; dup {
			verifrt.Note("name %q used by %d and %d", nm, other, code)
			verifrt.Assert(false, "C15.map.names-unique")
		}
		seen[nm] = code
		verifrt.Assert(PayloadForType(code) != nil, "C15.map.every-named-code-has-payload")
	}
}
