//verif:pkg pkg/client
//verif:kit conn
package client

// C18 — handshake gating of outgoing traffic (sendMessages unit, sendMessage direct path).

import (
	"bytes"
	"context"
	"net"
	"time"

	"github.com/pkg/errors"

	"github.com/tokenized/spynode/internal/verifrt"
)

// VerifHarness_C18_gating: nothing but handshake messages is written before
// the handshake completes; acked implies written; the unsent message is
// carried to the next connection.
func VerifHarness_C18_gating() {
	ctx := context.Background()
	nQueued := verifrt.Choose("queued", 3)
	signalled := verifrt.Choose("handshake-signalled", 2) == 1
	carried := verifrt.Choose("carried", 2) == 1
	conn := newVkConn()
	conn.FailAt = verifrt.Choose("fail-at-write", 8) - 1 // -1: never
	handshake := make(chan interface{}, 5)
	if signalled {
		handshake <- nil
	}
	interrupt := make(chan interface{})
	sendChannel := make(chan *sendMessageRequest, 10)
	type pending struct {
		req *sendMessageRequest
		ack chan error
		enc []byte
	}
	mk := func(i int) pending {
		ack := make(chan error, 1)
		m := &Message{Payload: &Ping{TimeStamp: uint64(1000 + i)}}
		var b bytes.Buffer
		m.Serialize(&b)
		return pending{&sendMessageRequest{msg: m, response: ack}, ack, b.Bytes()}
	}
	var all []pending
	var first *sendMessageRequest
	if carried {
		p := mk(0)
		all = append(all, p)
		first = p.req
	}
	for i := 0; i < nQueued; i++ {
		p := mk(1 + i)
		all = append(all, p)
		sendChannel <- p.req
	}
	var ret *sendMessageRequest
	var err error
	run := func() {
		ret, err = sendMessages(ctx, net.Conn(conn), handshake, interrupt, sendChannel, 50*time.Millisecond, first)
	}
	if verifrt.Symbolic() {
		verifrt.RunUntilBlocked(run)
	} else {
		done := make(chan bool, 1)
		go func() { run(); done <- true }()
		select {
		case <-done:
		case <-time.After(200 * time.Millisecond):
			close(interrupt)
			<-done
			ret, err = nil, nil
		}
	}
	written := conn.all()
	if !signalled {
		verifrt.Sig("sendMessages", "before-handshake")
		verifrt.Assert(len(written) == 0, "C18.gate.nothing-written-before-handshake")
		verifrt.Sig("sendMessages", "timeout")
		verifrt.Assert(errors.Cause(err) == ErrTimeout, "C18.gate.handshake-timeout-error")
		verifrt.Sig("sendMessages", "carried")
		verifrt.Assert(ret == first, "C18.gate.carried-message-is-kept")
		for _, p := range all {
			verifrt.Sig("sendMessages", "ack-before-handshake")
			verifrt.Assert(len(p.ack) == 0, "C18.gate.nothing-acked-before-handshake")
		}
		verifrt.Reach("C18.gate.not-signalled")
		verifrt.Reach("C18.gating.done")
		return
	}
	// acked => fully written, in order; the first un-acked message is returned on failure
	off := 0
	failed := false
	for i, p := range all {
		acked := len(p.ack) == 1
		if acked {
			verifrt.Sig("sendMessages", "ack-after-failure")
			verifrt.Assert(!failed, "C18.gate.no-ack-after-a-failed-write")
			verifrt.Sig("sendMessages", "acked-not-written")
			ok := off+len(p.enc) <= len(written) && bytes.Equal(written[off:off+len(p.enc)], p.enc)
			verifrt.Assert(ok, "C18.gate.acked-implies-written-in-order")
			off += len(p.enc)
		} else if !failed {
			failed = true
			verifrt.Sig("sendMessages", "returned")
			verifrt.Assert(err != nil && ret == p.req, "C18.gate.unsent-message-is-carried-to-next-connection")
			verifrt.Reach("C18.gate.write-failed")
		}
		_ = i
	}
	if !failed {
		verifrt.Sig("sendMessages", "all-sent")
		verifrt.Assert(len(written) == off, "C18.gate.only-queued-messages-written")
		verifrt.Reach("C18.gate.all-sent")
	}
	verifrt.Reach("C18.gating.done")
}

// VerifHarness_C18_direct: sendMessage before the handshake completes writes
// only handshake-type messages to the connection.
func VerifHarness_C18_direct() {
	ctx := context.Background()
	c := c18NewClient(ConnectionTypeFull)
	conn := newVkConn()
	c.conn.Store(net.Conn(conn))
	payloads := []MessagePayload{
		&Ready{NextMessageID: 5}, &SubscribeHeaders{}, &SubscribeContracts{}, &UnsubscribeHeaders{},
		&SubscribeTx{}, &SubscribePushData{}, &SubscribeOutputs{},
		&GetTx{}, &GetHeaders{}, &GetChainTip{}, &Ping{}, &ReprocessTx{}, &GetFeeQuotes{}, &MarkHeaderInvalid{},
	}
	p := payloads[verifrt.Choose("payload", len(payloads))]
	var err error
	if verifrt.Symbolic() {
		err = c.sendMessage(ctx, &Message{Payload: p}, 50*time.Millisecond)
	} else {
		err = c.sendMessage(ctx, &Message{Payload: p}, 50*time.Millisecond)
	}
	written := conn.all()
	if IsHandshakeType(p.Type()) {
		verifrt.Sig("sendMessage", "handshake-type")
		verifrt.Assert(err == nil && len(written) > 0, "C18.direct.handshake-messages-go-out")
		verifrt.Reach("C18.direct.handshake-type")
	} else {
		verifrt.Sig("sendMessage", "early-write")
		verifrt.Assert(len(written) == 0, "C18.direct.no-other-request-written-before-handshake")
		verifrt.Sig("sendMessage", "reported-sent")
		verifrt.Assert(err != nil, "C18.direct.never-reported-sent-without-being-written")
		verifrt.Reach("C18.direct.other-type")
	}
	verifrt.Reach("C18.direct.done")
}
