//verif:pkg pkg/client
//verif:kit conn interleave
package client

// C18 — send gating across a reconnect: the real runConnection (sends and
// receive threads of tokenized/threads, tear-down, carried message) runs as
// goroutines on two successive in-memory connections.

import (
	"bytes"
	"context"
	"net"
	"time"

	"github.com/tokenized/spynode/internal/verifrt"
)

type c18Pending struct {
	req *sendMessageRequest
	ack chan error
	enc []byte
}

func c18MkPending(i int) c18Pending {
	ack := make(chan error, 1)
	m := &Message{Payload: &Ping{TimeStamp: uint64(1000 + i)}}
	var b bytes.Buffer
	m.Serialize(&b)
	return c18Pending{&sendMessageRequest{msg: m, response: ack}, ack, b.Bytes()}
}

func c18Enc(p MessagePayload) []byte {
	var b bytes.Buffer
	(&Message{Payload: p}).Serialize(&b)
	return b.Bytes()
}

type c18ConnRun struct {
	ret  *sendMessageRequest
	err  error
	done bool
}

// VerifHarness_C18_reconnect: on the connection that follows a drop nothing
// but handshake messages is written before THAT connection's handshake
// completes, whatever the previous connection left behind; what was issued
// during the disconnect goes out afterwards, once, in order.
func VerifHarness_C18_reconnect() {
	verifrt.Goroutines()
	ctx := context.Background()
	c := c18NewClient(ConnectionTypeFull)
	c.handshakeTimeout.Store(20 * time.Second)
	c.messageTimeout.Store(20 * time.Second)
	c.nextMessageID.Store(uint64(1)) // as NewRemoteClient
	sendChannel := make(chan *sendMessageRequest, 10)
	receiveChannel := make(chan *Message, 10)
	interrupt := make(chan interface{})

	// the other goroutines may be scheduled at the interleaving point of runConnection's tear-down
	vkInterleave = func(point string) {
		if verifrt.Choose("preempt at "+point, 2) == 1 {
			verifrt.Yield()
			verifrt.Reach("C18.reconnect.preempted-in-tear-down")
		}
	}
	defer func() { vkInterleave = nil }()

	// ---- connection 1 (it may start with a message carried over from an earlier connection)
	var carried0 *c18Pending
	var first *sendMessageRequest
	if verifrt.Choose("conn1.carried-message", 2) == 1 {
		p := c18MkPending(0)
		carried0, first = &p, p.req
	}
	conn1 := newVkPipe()
	c.conn.Store(net.Conn(conn1))
	run1 := &c18ConnRun{}
	go func() {
		run1.ret, run1.err = c.runConnection(ctx, net.Conn(conn1), sendChannel, receiveChannel, first, interrupt)
		run1.done = true
	}()
	verifrt.Quiesce()
	verifrt.Sig("connection 1", "before-handshake")
	verifrt.Assert(len(conn1.all()) == 0, "C18.reconnect.nothing-written-before-handshake")

	handshake1 := verifrt.Choose("conn1.handshake-completes", 2) == 1
	var want1 []byte
	if handshake1 {
		c.accepted.Store(true)
		readies := 1 + verifrt.Choose("conn1.extra-ready", 2)
		for i := 0; i < readies; i++ {
			err := c.Ready(ctx, 1)
			verifrt.Assert(err == nil, "C18.reconnect.ready-ok")
			want1 = append(want1, c18Enc(&Ready{NextMessageID: 1})...)
		}
		verifrt.Quiesce()
		if carried0 != nil {
			want1 = append(want1, carried0.enc...)
			verifrt.Sig("connection 1", "carried-acked")
			verifrt.Assert(len(carried0.ack) == 1, "C18.reconnect.sent-after-handshake-is-acked")
		}
		if verifrt.Choose("conn1.request", 2) == 1 {
			p := c18MkPending(1)
			sendChannel <- p.req
			verifrt.Quiesce()
			want1 = append(want1, p.enc...)
			verifrt.Sig("connection 1", "request-acked")
			verifrt.Assert(len(p.ack) == 1, "C18.reconnect.sent-after-handshake-is-acked")
		}
		verifrt.Sig("connection 1", "written")
		verifrt.Assert(bytes.Equal(conn1.all(), want1), "C18.reconnect.connection-1-stream")
	}

	// ---- the connection drops
	var all []c18Pending // in the order they must appear on connection 2
	dropKind := 0
	if handshake1 {
		dropKind = verifrt.Choose("drop", 2) // 0 remote hang-up, 1 a write fails
	}
	if dropKind == 1 {
		conn1.mu.Lock()
		conn1.FailAt = conn1.Writes
		conn1.mu.Unlock()
		p := c18MkPending(2)
		sendChannel <- p.req
		all = append(all, p)
	} else {
		conn1.hangUp()
	}
	verifrt.Quiesce()
	verifrt.Sig("connection 1", "ended")
	verifrt.Assert(run1.done && run1.err == nil, "C18.reconnect.drop-ends-connection-for-reconnect")
	if !run1.done {
		return
	}
	if !handshake1 {
		verifrt.Sig("connection 1", "written-without-handshake")
		verifrt.Assert(len(conn1.all()) == 0, "C18.reconnect.nothing-written-to-a-connection-whose-handshake-never-completed")
		if carried0 != nil {
			verifrt.Sig("connection 1", "carried-on")
			verifrt.Assert(run1.ret == carried0.req && len(carried0.ack) == 0, "C18.reconnect.unsent-message-is-carried-not-acked")
			all = append(all, *carried0)
		}
	}
	if dropKind == 1 {
		verifrt.Sig("connection 1", "carried")
		verifrt.Assert(run1.ret == all[0].req && len(all[0].ack) == 0, "C18.reconnect.unsent-message-is-carried-not-acked")
	}

	// ---- a request issued during the disconnect
	if verifrt.Choose("request-during-disconnect", 2) == 1 {
		p := c18MkPending(3)
		sendChannel <- p.req
		all = append(all, p)
	}

	// ---- connection 2
	conn2 := newVkPipe()
	c.conn.Store(net.Conn(conn2))
	run2 := &c18ConnRun{}
	go func() {
		run2.ret, run2.err = c.runConnection(ctx, net.Conn(conn2), sendChannel, receiveChannel, run1.ret, interrupt)
		run2.done = true
	}()
	verifrt.Quiesce()
	verifrt.Sig("connection 2", "before-handshake")
	verifrt.Assert(len(conn2.all()) == 0, "C18.reconnect.nothing-written-before-new-handshake")
	for _, p := range all {
		verifrt.Sig("connection 2", "ack-before-handshake")
		verifrt.Assert(len(p.ack) == 0, "C18.reconnect.nothing-acked-before-new-handshake")
	}
	verifrt.Sig("connection 2", "flags")
	verifrt.Assert(!c.handshakeComplete.Load().(bool) && !c.accepted.Load().(bool), "C18.reconnect.handshake-state-reset")

	// ---- its handshake completes
	c.accepted.Store(true)
	next := c.NextMessageID()
	err := c.Ready(ctx, next)
	verifrt.Assert(err == nil, "C18.reconnect.ready-ok")
	verifrt.Quiesce()
	want2 := c18Enc(&Ready{NextMessageID: next})
	for _, p := range all {
		want2 = append(want2, p.enc...)
		verifrt.Sig("connection 2", "acked")
		verifrt.Assert(len(p.ack) == 1, "C18.reconnect.earlier-request-sent-after-handshake")
	}
	verifrt.Sig("connection 2", "written")
	verifrt.Assert(bytes.Equal(conn2.all(), want2), "C18.reconnect.connection-2-stream-is-ready-then-queued-once-in-order")

	close(interrupt)
	verifrt.Quiesce()
	verifrt.Sig("connection 2", "shutdown")
	verifrt.Assert(run2.done, "C18.reconnect.interrupt-ends-connection")
	verifrt.Reach("C18.reconnect.done")
}
