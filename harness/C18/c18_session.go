//verif:pkg pkg/client
//verif:kit conn
package client

// C18 (with C16/C17 seams) — a whole client session: the real RemoteClient.Run with all of its
// threads (connection maintenance, sends, receive, message handling, handler, requests, ping) as
// goroutines against a scripted server, across a drop and an automatic reconnect.
//
// Inside the engine the goroutines are cooperative (run-to-block, round-robin: one interleaving),
// the connection is an in-memory pipe handed out by the dial stub and secp256k1 is uninterpreted
// (the honest server's signature is assumed to verify); natively the same script runs against a
// loopback TCP listener with real keys.

import (
	"bytes"
	"context"
	"math/big"
	"net"
	"sync"
	"time"

	"github.com/tokenized/config"
	"github.com/tokenized/pkg/bitcoin"
	"github.com/tokenized/pkg/wire"

	"github.com/tokenized/spynode/internal/verifrt"
)

type c18Handler struct {
	mu     sync.Mutex
	events []string
	txIDs  []uint64
}

func (h *c18Handler) add(e string) {
	h.mu.Lock()
	h.events = append(h.events, e)
	h.mu.Unlock()
}
func (h *c18Handler) HandleTx(ctx context.Context, tx *Tx) {
	h.mu.Lock()
	h.txIDs = append(h.txIDs, tx.ID)
	h.mu.Unlock()
	h.add("tx")
}
func (h *c18Handler) HandleTxUpdate(ctx context.Context, u *TxUpdate) {
	h.mu.Lock()
	h.txIDs = append(h.txIDs, u.ID)
	h.mu.Unlock()
	h.add("update")
}
func (h *c18Handler) HandleHeaders(ctx context.Context, hs *Headers)       { h.add("headers") }
func (h *c18Handler) HandleInSync(ctx context.Context)                     { h.add("insync") }
func (h *c18Handler) HandleMessage(ctx context.Context, p MessagePayload) { h.add("message") }
func (h *c18Handler) ids() []uint64 {
	h.mu.Lock()
	defer h.mu.Unlock()
	return append([]uint64(nil), h.txIDs...)
}

// c18Srv is the scripted server.
type c18Srv struct {
	c *RemoteClient
	n int // connections accepted so far
	// engine
	pipe *vkPipe
	// native
	key  bitcoin.Key
	ln   net.Listener
	conn net.Conn
	mu   sync.Mutex
	got  []byte
}

// accept waits for the client's next connection; wait is how long the client may take to dial.
func (s *c18Srv) accept(wait time.Duration) bool {
	s.n++
	if verifrt.Symbolic() {
		s.pipe = newVkPipe()
		verifrt.SetDialConn(net.Conn(s.pipe))
		if wait > 0 {
			time.Sleep(wait) // virtual: lets the client's retry delay elapse
		}
		verifrt.Quiesce()
		return len(s.pipe.all()) > 0
	}
	s.ln.(*net.TCPListener).SetDeadline(time.Now().Add(wait + 5*time.Second))
	conn, err := s.ln.Accept()
	if err != nil {
		return false
	}
	s.mu.Lock()
	s.conn, s.got = conn, nil
	s.mu.Unlock()
	go func() {
		buf := make([]byte, 4096)
		for {
			n, rerr := conn.Read(buf)
			s.mu.Lock()
			if s.conn == conn {
				s.got = append(s.got, buf[:n]...)
			}
			s.mu.Unlock()
			if rerr != nil {
				return
			}
		}
	}()
	time.Sleep(60 * time.Millisecond)
	return true
}

// written returns every message the client has written on the current connection.
func (s *c18Srv) written() []MessagePayload {
	var raw []byte
	if verifrt.Symbolic() {
		verifrt.Quiesce()
		raw = s.pipe.all()
	} else {
		time.Sleep(80 * time.Millisecond)
		s.mu.Lock()
		raw = append([]byte(nil), s.got...)
		s.mu.Unlock()
	}
	var out []MessagePayload
	r := bytes.NewReader(raw)
	for r.Len() > 0 {
		m := &Message{}
		if err := m.Deserialize(r); err != nil {
			out = append(out, nil) // undecodable bytes on the wire
			break
		}
		out = append(out, m.Payload)
	}
	return out
}

func (s *c18Srv) send(p MessagePayload) {
	var b bytes.Buffer
	(&Message{Payload: p}).Serialize(&b)
	if verifrt.Symbolic() {
		s.pipe.feed(b.Bytes())
		verifrt.Quiesce()
		return
	}
	s.conn.Write(b.Bytes())
	time.Sleep(60 * time.Millisecond)
}

// sendAccept answers the Register of this connection as the honest server does.
func (s *c18Srv) sendAccept(r *Register) {
	m := &AcceptRegister{PushDataCount: 1, UTXOCount: 2, MessageCount: 3}
	if verifrt.Symbolic() {
		s.c.sessionLock.Lock()
		m.Key = s.c.serverSessionKey
		s.c.sessionLock.Unlock()
		m.Signature = c18Sig("accept.signature")
		h, err := m.SigHash(r.Hash)
		verifrt.Assume(err == nil)
		verifrt.Assume(m.Signature.Verify(*h, m.Key)) // the honest server's signature verifies
	} else {
		sk, err := bitcoin.NextKey(s.key, r.Hash)
		if err != nil {
			verifrt.Assume(false)
		}
		m.Key = sk.PublicKey()
		h, _ := m.SigHash(r.Hash)
		m.Signature, _ = sk.Sign(*h)
	}
	s.send(m)
}

func (s *c18Srv) drop() {
	if verifrt.Symbolic() {
		s.pipe.hangUp()
		verifrt.Quiesce()
		return
	}
	s.mu.Lock()
	conn := s.conn
	s.mu.Unlock()
	conn.Close()
	time.Sleep(80 * time.Millisecond)
}

func c18Kinds(ps []MessagePayload) []uint64 {
	var out []uint64
	for _, p := range ps {
		if p == nil {
			out = append(out, 0)
		} else {
			out = append(out, p.Type())
		}
	}
	return out
}

func c18KindsEq(a []uint64, b ...uint64) bool {
	if len(a) != len(b) {
		return false
	}
	for i := range a {
		if a[i] != b[i] {
			return false
		}
	}
	return true
}

func VerifHarness_C18_session() {
	verifrt.Goroutines()
	ctx := context.Background()
	s := &c18Srv{}
	cfg := &Config{
		ConnectionType:        ConnectionTypeFull,
		StartBlockHeight:      100,
		MaxRetries:            50,
		RetryDelay:            config.NewDuration(2 * time.Second),
		RetryError:            config.NewDuration(10 * time.Minute),
		RequestTimeout:        config.NewDuration(20 * time.Second),
		DialTimeout:           config.NewDuration(5 * time.Second),
		HandshakeTimeout:      config.NewDuration(30 * time.Second),
		MessageChannelTimeout: config.NewDuration(30 * time.Second),
	}
	if verifrt.Symbolic() {
		kb := verifrt.Bytes("client.key", 32)
		verifrt.Assume(kb[0] != 0)
		var kv big.Int
		kv.SetBytes(kb)
		cfg.ClientKey = bitcoin.KeyFromValue(kv, bitcoin.MainNet)
		cfg.ServerKey = c18PubKey(0)
		cfg.ServerAddress = "mem"
	} else {
		cfg.RetryDelay = config.NewDuration(100 * time.Millisecond)
		ck, _ := bitcoin.GenerateKey(bitcoin.MainNet)
		sk, _ := bitcoin.GenerateKey(bitcoin.MainNet)
		s.key = sk
		cfg.ClientKey = ck
		cfg.ServerKey = sk.PublicKey()
		ln, lerr := net.Listen("tcp", "127.0.0.1:0")
		if lerr != nil {
			verifrt.Assume(false)
		}
		defer ln.Close()
		s.ln = ln
		cfg.ServerAddress = ln.Addr().String()
	}
	c, err := NewRemoteClient(cfg)
	verifrt.Assert(err == nil, "C18.session.client-built")
	s.c = c
	h := &c18Handler{}
	c.RegisterHandler(h)
	interrupt := make(chan interface{})
	var runErr error
	runDone := false
	if verifrt.Symbolic() {
		s.pipe = newVkPipe()
		verifrt.SetDialConn(net.Conn(s.pipe))
	}
	go func() {
		runErr = c.Run(ctx, interrupt)
		runDone = true
	}()

	// ---- connection 1
	if verifrt.Symbolic() {
		s.n = 1
		verifrt.Quiesce()
	} else {
		verifrt.Assert(s.accept(0), "C18.session.client-connects")
	}
	w := s.written()
	verifrt.Sig("connection 1", "first-message")
	verifrt.Assert(c18KindsEq(c18Kinds(w), MessageTypeRegister), "C18.session.only-register-before-accept")
	if !c18KindsEq(c18Kinds(w), MessageTypeRegister) {
		return
	}
	r1 := w[0].(*Register)

	// a request issued before the handshake is complete
	tx := wire.NewMsgTx(1)
	tx.LockTime = 77
	txid := *tx.TxHash()
	early := verifrt.Choose("request-before-handshake", 2) == 1
	var sendErr error
	sendDone := false
	if early {
		go func() {
			sendErr = c.SendTx(ctx, tx)
			sendDone = true
		}()
		w = s.written()
		verifrt.Sig("connection 1", "early-request")
		verifrt.Assert(c18KindsEq(c18Kinds(w), MessageTypeRegister), "C18.session.request-not-written-before-handshake")
	}
	// the application declares ready although this connection has not been accepted (a Ready meant
	// for an earlier connection that arrives late, or an impatient application): that must not open
	// the connection for requests
	if verifrt.Choose("ready-declared-before-the-accept", 2) == 1 {
		perr := c.Ready(ctx, c.NextMessageID())
		verifrt.Note("Ready before the accept: %v", perr)
		for _, k := range c18Kinds(s.written()) {
			verifrt.Sig("connection 1", "ready-before-accept")
			verifrt.Assert(IsHandshakeType(k), "C18.session.no-request-written-to-a-connection-that-is-not-accepted")
		}
		verifrt.Reach("C18.session.ready-before-accept")
		if perr == nil {
			return // (the rest of the script assumes a connection that still waits for its Ready)
		}
	}
	// a server that has not (yet) proved itself pushes data: nothing may reach the handlers
	if verifrt.Choose("data-before-accept", 2) == 1 {
		s.send(&Tx{ID: 1, Tx: wire.NewMsgTx(1)})
		s.send(&InSync{})
		verifrt.Sig("connection 1", "data-before-accept")
		verifrt.Assert(len(h.ids()) == 0 && len(h.events) == 0, "C18.session.no-data-reaches-handlers-before-a-valid-accept")
		verifrt.Reach("C18.session.data-before-accept")
	}
	s.sendAccept(r1)
	w = s.written()
	verifrt.Sig("connection 1", "after-accept")
	verifrt.Assert(c18KindsEq(c18Kinds(w), MessageTypeRegister), "C18.session.full-connection-waits-for-ready")
	verifrt.Sig("connection 1", "accepted")
	verifrt.Assert(c.accepted.Load().(bool), "C18.session.honest-accept-is-accepted")
	rerr := c.Ready(ctx, c.NextMessageID())
	verifrt.Assert(rerr == nil, "C18.session.ready-ok")
	w = s.written()
	verifrt.Sig("connection 1", "after-ready")
	if early {
		verifrt.Assert(c18KindsEq(c18Kinds(w), MessageTypeRegister, MessageTypeReady, MessageTypeSendTx), "C18.session.queued-request-goes-out-after-ready")
	} else {
		verifrt.Assert(c18KindsEq(c18Kinds(w), MessageTypeRegister, MessageTypeReady), "C18.session.ready-written")
	}

	// the server pushes two transactions and answers the request
	s.send(&Tx{ID: 1, Tx: wire.NewMsgTx(1)})
	s.send(&Tx{ID: 2, Tx: wire.NewMsgTx(1)})
	if early {
		s.send(&Accept{MessageType: MessageTypeSendTx, Hash: &txid})
		if !verifrt.Symbolic() {
			time.Sleep(50 * time.Millisecond)
		}
		verifrt.Sig("connection 1", "call-returns")
		verifrt.Assert(sendDone && sendErr == nil, "C18.session.call-returns-its-accept")
	}
	verifrt.Sig("connection 1", "delivered")
	ids := h.ids()
	verifrt.Assert(len(ids) == 2 && ids[0] == 1 && ids[1] == 2, "C18.session.txs-delivered-in-id-order")
	verifrt.Sig("connection 1", "next-id")
	verifrt.Assert(c.NextMessageID() == 3, "C18.session.next-id-is-last-delivered-plus-one")

	// ---- the connection drops; a call is made while disconnected
	s.drop()
	during := verifrt.Choose("request-during-disconnect", 2) == 1
	var getTx *wire.MsgTx
	var getErr error
	getDone := false
	if during {
		go func() {
			getTx, getErr = c.GetTx(ctx, txid)
			getDone = true
		}()
	}

	// ---- connection 2 (automatic reconnect after the retry delay)
	verifrt.Sig("connection 2", "reconnects")
	verifrt.Assert(s.accept(3*time.Second), "C18.session.client-reconnects")
	w = s.written()
	verifrt.Sig("connection 2", "first-message")
	verifrt.Assert(c18KindsEq(c18Kinds(w), MessageTypeRegister), "C18.session.only-register-on-new-connection-before-its-handshake")
	if !c18KindsEq(c18Kinds(w), MessageTypeRegister) {
		return
	}
	r2 := w[0].(*Register)
	// (inside the engine the seed generator is a fresh random draw, two draws being distinct)
	verifrt.Sig("connection 2", "fresh-hash")
	verifrt.Assert(verifrt.Not(verifrt.BytesEq(r1.Hash[:], r2.Hash[:])), "C18.session.register-carries-a-fresh-hash")
	verifrt.Sig("connection 2", "flags")
	verifrt.Assert(!c.accepted.Load().(bool) && !c.handshakeComplete.Load().(bool), "C18.session.handshake-state-reset-on-new-connection")
	// a message that is not the next id, sent before this connection's handshake, is not delivered
	stale := verifrt.Choose("stale-tx-before-handshake", 2) == 1
	s.sendAccept(r2)
	if stale {
		s.send(&Tx{ID: 2, Tx: wire.NewMsgTx(1)})
	}
	w = s.written()
	verifrt.Sig("connection 2", "after-accept")
	verifrt.Assert(c18KindsEq(c18Kinds(w), MessageTypeRegister), "C18.session.nothing-written-before-ready-on-new-connection")
	next := c.NextMessageID()
	verifrt.Sig("connection 2", "next-id")
	verifrt.Assert(next == 3, "C18.session.next-id-survives-reconnect")
	rerr = c.Ready(ctx, next)
	verifrt.Assert(rerr == nil, "C18.session.ready-ok")
	w = s.written()
	verifrt.Sig("connection 2", "after-ready")
	if during {
		verifrt.Assert(c18KindsEq(c18Kinds(w), MessageTypeRegister, MessageTypeReady, MessageTypeGetTx), "C18.session.call-made-while-disconnected-goes-out-after-handshake")
		s.send(&BaseTx{Tx: tx})
		if !verifrt.Symbolic() {
			time.Sleep(50 * time.Millisecond)
		}
		verifrt.Sig("connection 2", "call-returns")
		verifrt.Assert(getDone && getErr == nil && getTx != nil && *getTx.TxHash() == txid, "C18.session.call-made-while-disconnected-returns-its-answer")
	} else {
		verifrt.Assert(c18KindsEq(c18Kinds(w), MessageTypeRegister, MessageTypeReady), "C18.session.ready-written")
	}
	s.send(&Tx{ID: 2, Tx: wire.NewMsgTx(1)}) // repeated
	s.send(&Tx{ID: 3, Tx: wire.NewMsgTx(1)})
	ids = h.ids()
	verifrt.Sig("connection 2", "delivered")
	verifrt.Assert(len(ids) == 3 && ids[2] == 3, "C18.session.no-repeat-no-gap-across-reconnect")

	close(interrupt)
	if verifrt.Symbolic() {
		verifrt.Quiesce()
	} else {
		for i := 0; i < 100 && !runDone; i++ {
			time.Sleep(20 * time.Millisecond)
		}
	}
	verifrt.Sig("shutdown", "run-returns")
	verifrt.Assert(runDone, "C18.session.interrupt-stops-the-client")
	_ = runErr
	verifrt.Reach("C18.session.done")
}
