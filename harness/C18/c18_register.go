//verif:pkg pkg/client
//verif:kit conn
package client

// C18 — client registration: what connect() writes (kept in a file of its own: it is the only harness
// that calls connect() directly).

import (
	"bytes"
	"context"
	"math/big"
	"net"
	"time"

	"github.com/tokenized/pkg/bitcoin"

	"github.com/tokenized/spynode/internal/verifrt"
)

// VerifHarness_C18_register: the bytes connect() writes decode to a Register
// that is validly signed by the configured client key over its contents and
// this connection's fresh hash.
func VerifHarness_C18_register() {
	ctx := context.Background()
	connType := ConnectionTypeFull
	if verifrt.Choose("connection-type", 2) == 1 {
		connType = ConnectionTypeControl
	}
	c := c18NewClient(connType)
	cfg := Config{ConnectionType: connType, StartBlockHeight: verifrt.U32("start-height")}
	var written []byte
	var conn net.Conn
	var err error
	if verifrt.Symbolic() {
		kb := verifrt.Bytes("client.key", 32)
		verifrt.Assume(kb[0] != 0)
		var kv big.Int
		kv.SetBytes(kb)
		cfg.ClientKey = bitcoin.KeyFromValue(kv, bitcoin.MainNet)
		cfg.ServerKey = c18PubKey(0)
		cfg.ServerAddress = "mem"
		c.config.Store(cfg)
		vc := newVkConn()
		verifrt.SetDialConn(net.Conn(vc))
		conn, err = c.connect(ctx)
		written = vc.all()
	} else {
		ck, _ := bitcoin.GenerateKey(bitcoin.MainNet)
		sk, _ := bitcoin.GenerateKey(bitcoin.MainNet)
		cfg.ClientKey = ck
		cfg.ServerKey = sk.PublicKey()
		ln, lerr := net.Listen("tcp", "127.0.0.1:0")
		if lerr != nil {
			verifrt.Assume(false)
		}
		defer ln.Close()
		cfg.ServerAddress = ln.Addr().String()
		c.config.Store(cfg)
		got := make(chan []byte, 1)
		go func() {
			sc, aerr := ln.Accept()
			if aerr != nil {
				got <- nil
				return
			}
			sc.SetReadDeadline(time.Now().Add(300 * time.Millisecond))
			var all []byte
			buf := make([]byte, 4096)
			for {
				n, rerr := sc.Read(buf)
				all = append(all, buf[:n]...)
				if rerr != nil {
					break
				}
			}
			got <- all
			sc.Close()
		}()
		conn, err = c.connect(ctx)
		written = <-got
	}
	verifrt.Note("connect: err=%v", err)
	verifrt.Sig("connect", "err")
	verifrt.Assert(err == nil && conn != nil, "C18.register.connect-ok")
	if err != nil {
		return
	}
	var msg Message
	derr := msg.Deserialize(bytes.NewReader(written))
	verifrt.Note("decode of %d written bytes: %v", len(written), derr)
	verifrt.Sig("connect", "decode")
	verifrt.Assert(derr == nil, "C18.register.first-bytes-are-a-message")
	if derr != nil {
		return
	}
	r, ok := msg.Payload.(*Register)
	verifrt.Sig("connect", "kind")
	verifrt.Assert(ok, "C18.register.first-message-is-register")
	if !ok {
		return
	}
	pub := cfg.ClientKey.PublicKey()
	verifrt.Sig("register", "key")
	verifrt.Assert(verifrt.BytesEq(r.Key.Bytes(), pub.Bytes()), "C18.register.carries-client-public-key")
	verifrt.Sig("register", "hash")
	verifrt.Assert(verifrt.BytesEq(r.Hash[:], c.hash[:]), "C18.register.carries-this-connections-hash")
	verifrt.Sig("register", "fields")
	verifrt.Assert(r.StartBlockHeight == cfg.StartBlockHeight && r.ConnectionType == connType && r.Version == RemoteClientVersion, "C18.register.fields")
	sh, serr := r.SigHash()
	verifrt.Assert(serr == nil, "C18.register.sighash-ok")
	verifrt.Sig("register", "signature")
	verifrt.Assert(r.Signature.Verify(*sh, pub), "C18.register.validly-signed-by-client-key")
	verifrt.Reach("C18.register.done")
}

