//verif:pkg pkg/client
//verif:kit conn
package client

// C18 — server authentication (accept verification), client registration
// signing, and handshake gating of outgoing traffic.

import (
	"bytes"
	"context"
	"encoding/hex"
	"math/big"
	"net"
	"time"

	"github.com/pkg/errors"
	"github.com/tokenized/pkg/bitcoin"

	"github.com/tokenized/spynode/internal/verifrt"
)

var c18Keys = []string{
	"0279be667ef9dcbbac55a06295ce870b07029bfcdb2dce28d959f2815b16f81798",
	"02c6047f9441ed7d6d3045406e95c07cd85c778e4b8cef3ca7abac09b95c709ee5",
}

func c18PubKey(i int) bitcoin.PublicKey {
	b, _ := hex.DecodeString(c18Keys[i])
	var k bitcoin.PublicKey
	if err := k.SetBytes(b); err != nil {
		verifrt.Assume(false)
	}
	return k
}

func c18Sig(name string) bitcoin.Signature {
	var s bitcoin.Signature
	rb := verifrt.Bytes(name+".R", 2)
	verifrt.Assume(rb[0] != 0)
	s.R.SetBytes(rb)
	sb := verifrt.Bytes(name+".S", 2)
	verifrt.Assume(sb[0] != 0)
	s.S.SetBytes(sb)
	return s
}

func c18SigEq(a, b *bitcoin.Signature) bool {
	return verifrt.And(verifrt.BytesEq(a.R.Bytes(), b.R.Bytes()), verifrt.BytesEq(a.S.Bytes(), b.S.Bytes()))
}

func c18NewClient(connType ConnectionType) *RemoteClient {
	c := &RemoteClient{
		addRequestsChannel:     make(chan *request, 100),
		removeRequestsChannel:  make(chan *request, 100),
		requestResponseChannel: make(chan *requestResponse, 100),
	}
	c.handlerChannel = make(chan *Message, 10)
	c.sendChannel = make(chan *sendMessageRequest, 10)
	c.messageTimeout.Store(100 * time.Millisecond)
	c.requestTimeout.Store(100 * time.Millisecond)
	c.handshakeTimeout.Store(100 * time.Millisecond)
	c.dialTimeout.Store(500 * time.Millisecond)
	c.accepted.Store(false)
	c.handshakeComplete.Store(false)
	c.isReconnecting.Store(false)
	c.handshakeCompleteChannel.Store(make(chan interface{}, 5))
	c.config.Store(Config{ConnectionType: connType})
	return c
}

// VerifHarness_C18_accept: a forged or honest accept message against the
// session derived for this connection.
func VerifHarness_C18_accept() {
	ctx := context.Background()
	connType := ConnectionTypeFull
	if verifrt.Choose("connection-type", 2) == 1 {
		connType = ConnectionTypeControl
	}
	c := c18NewClient(connType)

	// what the honest server signed for this connection
	m0 := AcceptRegister{PushDataCount: verifrt.U64("m0.pushdata"), UTXOCount: verifrt.U64("m0.utxo"), MessageCount: verifrt.U64("m0.messages")}
	// what the peer presents
	m := &AcceptRegister{PushDataCount: verifrt.U64("m.pushdata"), UTXOCount: verifrt.U64("m.utxo"), MessageCount: verifrt.U64("m.messages")}
	// the varint width case split (4 per count) is kept for the push-data counts only
	verifrt.Assume(verifrt.And(verifrt.And(m0.UTXOCount < 0xfd, m0.MessageCount < 0xfd), verifrt.And(m.UTXOCount < 0xfd, m.MessageCount < 0xfd)))
	keyChoice := verifrt.Choose("m.key", 2)   // 0: this connection's session key, 1: another key
	sigChoice := verifrt.Choose("m.signature", 2) // 0: the honest signature, 1: any other signature

	var sessionKey, otherKey bitcoin.PublicKey
	var sig0, sigX bitcoin.Signature
	if verifrt.Symbolic() {
		copy(c.hash[:], verifrt.Bytes("session.hash", 32))
		sessionKey, otherKey = c18PubKey(0), c18PubKey(1)
		sig0, sigX = c18Sig("sig0"), c18Sig("sigX")
		verifrt.Assume(verifrt.Not(c18SigEq(&sig0, &sigX)))
	} else {
		// real keys for the native replay
		serverKey, _ := bitcoin.GenerateKey(bitcoin.MainNet)
		attacker, _ := bitcoin.GenerateKey(bitcoin.MainNet)
		for i := range c.hash {
			c.hash[i] = byte(i*7 + 3)
		}
		sessionKey, _ = bitcoin.NextPublicKey(serverKey.PublicKey(), c.hash)
		sessionPriv, _ := bitcoin.NextKey(serverKey, c.hash)
		otherKey = attacker.PublicKey()
		m0.Key = sessionKey
		h0, _ := m0.SigHash(c.hash)
		sig0, _ = sessionPriv.Sign(*h0)
		// the strongest forgery: a perfectly valid signature by the attacker's own key over what he presents
		mm := *m
		if keyChoice == 0 {
			mm.Key = sessionKey
		} else {
			mm.Key = otherKey
		}
		hm, _ := mm.SigHash(c.hash)
		sigX, _ = attacker.Sign(*hm)
	}
	c.serverSessionKey = sessionKey
	m0.Key = sessionKey
	m0.Signature = sig0
	if keyChoice == 0 {
		m.Key = sessionKey
	} else {
		m.Key = otherKey
	}
	if sigChoice == 0 {
		m.Signature = sig0
	} else {
		m.Signature = sigX
	}
	hash0, err0 := m0.SigHash(c.hash)
	hashM, errM := m.SigHash(c.hash)
	verifrt.Assert(err0 == nil && errM == nil, "C18.accept.sighash-ok")
	sameCounts := verifrt.And(verifrt.And(m.PushDataCount == m0.PushDataCount, m.UTXOCount == m0.UTXOCount), m.MessageCount == m0.MessageCount)
	if verifrt.Symbolic() {
		// the honest signature verifies; nobody without the session private key can make
		// another (signature, hash) pair verify under the session key
		verifrt.Assume(sig0.Verify(*hash0, sessionKey))
		if keyChoice == 0 {
			vM := m.Signature.Verify(*hashM, m.Key)
			honest := verifrt.And(c18SigEq(&m.Signature, &sig0), verifrt.BytesEq(hashM[:], hash0[:]))
			verifrt.Assume(verifrt.Implies(vM, honest))
		}
	}
	verifrt.Reach("C18.accept.message-built")

	var herr error
	panicked, what := verifrt.Catch(func() { herr = c.handleMessage(ctx, &Message{Payload: m}) })
	verifrt.Note("accept with key %d sig %d: panic=%v %s err=%v", keyChoice, sigChoice, panicked, what, herr)
	verifrt.Sig("accept", "panic")
	verifrt.Assert(!panicked, "C18.accept.no-panic")
	if panicked {
		return
	}
	accepted := c.accepted.Load().(bool)
	if accepted {
		verifrt.Sig("accept", "wrong-key")
		verifrt.Assert(keyChoice == 0, "C18.accept.only-with-this-connections-session-key")
		verifrt.Sig("accept", "altered-contents")
		verifrt.Assert(sameCounts, "C18.accept.only-contents-the-session-key-signed")
		verifrt.Sig("accept", "error-on-accept")
		verifrt.Assert(herr == nil, "C18.accept.no-error-when-accepted")
		verifrt.Sig("accept", "handshake-flag")
		verifrt.Assert(c.handshakeComplete.Load().(bool) == (connType != ConnectionTypeFull), "C18.accept.handshake-complete-only-for-control-connections")
		verifrt.Reach("C18.accept.accepted")
	} else {
		verifrt.Sig("accept", "silent-failure")
		verifrt.Assert(herr != nil, "C18.accept.failure-fails-the-connection")
		verifrt.Sig("accept", "data-after-failure")
		verifrt.Assert(len(c.handlerChannel) == 0, "C18.accept.no-data-to-handlers-when-not-accepted")
		verifrt.Sig("accept", "handshake-after-failure")
		verifrt.Assert(!c.handshakeComplete.Load().(bool), "C18.accept.no-handshake-when-not-accepted")
		verifrt.Reach("C18.accept.refused")
	}
	// an honest accept is accepted (the check is not vacuous the other way round)
	if keyChoice == 0 && sigChoice == 0 {
		verifrt.Sig("accept", "honest-refused")
		verifrt.Assert(verifrt.Implies(sameCounts, accepted), "C18.accept.honest-server-is-accepted")
	}
	verifrt.Reach("C18.accept.done")
}

// VerifHarness_C18_register: the bytes connect() writes decode to a Register
// that is validly signed by the configured client key over its contents and
// this connection's fresh hash.
func VerifHarness_C18_register() {
	ctx := context.Background()
	connType := ConnectionTypeFull
	if verifrt.Choose("connection-type", 2) == 1 {
		connType = ConnectionTypeControl
	}
	c := c18NewClient(connType)
	cfg := Config{ConnectionType: connType, StartBlockHeight: verifrt.U32("start-height")}
	var written []byte
	var conn net.Conn
	var err error
	if verifrt.Symbolic() {
		kb := verifrt.Bytes("client.key", 32)
		verifrt.Assume(kb[0] != 0)
		var kv big.Int
		kv.SetBytes(kb)
		cfg.ClientKey = bitcoin.KeyFromValue(kv, bitcoin.MainNet)
		cfg.ServerKey = c18PubKey(0)
		cfg.ServerAddress = "mem"
		c.config.Store(cfg)
		vc := newVkConn()
		verifrt.SetDialConn(net.Conn(vc))
		conn, err = c.connect(ctx)
		written = vc.all()
	} else {
		ck, _ := bitcoin.GenerateKey(bitcoin.MainNet)
		sk, _ := bitcoin.GenerateKey(bitcoin.MainNet)
		cfg.ClientKey = ck
		cfg.ServerKey = sk.PublicKey()
		ln, lerr := net.Listen("tcp", "127.0.0.1:0")
		if lerr != nil {
			verifrt.Assume(false)
		}
		defer ln.Close()
		cfg.ServerAddress = ln.Addr().String()
		c.config.Store(cfg)
		got := make(chan []byte, 1)
		go func() {
			sc, aerr := ln.Accept()
			if aerr != nil {
				got <- nil
				return
			}
			sc.SetReadDeadline(time.Now().Add(300 * time.Millisecond))
			var all []byte
			buf := make([]byte, 4096)
			for {
				n, rerr := sc.Read(buf)
				all = append(all, buf[:n]...)
				if rerr != nil {
					break
				}
			}
			got <- all
			sc.Close()
		}()
		conn, err = c.connect(ctx)
		written = <-got
	}
	verifrt.Note("connect: err=%v", err)
	verifrt.Sig("connect", "err")
	verifrt.Assert(err == nil && conn != nil, "C18.register.connect-ok")
	if err != nil {
		return
	}
	var msg Message
	derr := msg.Deserialize(bytes.NewReader(written))
	verifrt.Note("decode of %d written bytes: %v", len(written), derr)
	verifrt.Sig("connect", "decode")
	verifrt.Assert(derr == nil, "C18.register.first-bytes-are-a-message")
	if derr != nil {
		return
	}
	r, ok := msg.Payload.(*Register)
	verifrt.Sig("connect", "kind")
	verifrt.Assert(ok, "C18.register.first-message-is-register")
	if !ok {
		return
	}
	pub := cfg.ClientKey.PublicKey()
	verifrt.Sig("register", "key")
	verifrt.Assert(verifrt.BytesEq(r.Key.Bytes(), pub.Bytes()), "C18.register.carries-client-public-key")
	verifrt.Sig("register", "hash")
	verifrt.Assert(verifrt.BytesEq(r.Hash[:], c.hash[:]), "C18.register.carries-this-connections-hash")
	verifrt.Sig("register", "fields")
	verifrt.Assert(r.StartBlockHeight == cfg.StartBlockHeight && r.ConnectionType == connType && r.Version == RemoteClientVersion, "C18.register.fields")
	sh, serr := r.SigHash()
	verifrt.Assert(serr == nil, "C18.register.sighash-ok")
	verifrt.Sig("register", "signature")
	verifrt.Assert(r.Signature.Verify(*sh, pub), "C18.register.validly-signed-by-client-key")
	verifrt.Reach("C18.register.done")
}

// VerifHarness_C18_gating: nothing but handshake messages is written before
// the handshake completes; acked implies written; the unsent message is
// carried to the next connection.
func VerifHarness_C18_gating() {
	ctx := context.Background()
	nQueued := verifrt.Choose("queued", 3)
	signalled := verifrt.Choose("handshake-signalled", 2) == 1
	carried := verifrt.Choose("carried", 2) == 1
	conn := newVkConn()
	conn.FailAt = verifrt.Choose("fail-at-write", 8) - 1 // -1: never
	handshake := make(chan interface{}, 5)
	if signalled {
		handshake <- nil
	}
	interrupt := make(chan interface{})
	sendChannel := make(chan *sendMessageRequest, 10)
	type pending struct {
		req *sendMessageRequest
		ack chan error
		enc []byte
	}
	mk := func(i int) pending {
		ack := make(chan error, 1)
		m := &Message{Payload: &Ping{TimeStamp: uint64(1000 + i)}}
		var b bytes.Buffer
		m.Serialize(&b)
		return pending{&sendMessageRequest{msg: m, response: ack}, ack, b.Bytes()}
	}
	var all []pending
	var first *sendMessageRequest
	if carried {
		p := mk(0)
		all = append(all, p)
		first = p.req
	}
	for i := 0; i < nQueued; i++ {
		p := mk(1 + i)
		all = append(all, p)
		sendChannel <- p.req
	}
	var ret *sendMessageRequest
	var err error
	run := func() {
		ret, err = sendMessages(ctx, net.Conn(conn), handshake, interrupt, sendChannel, 50*time.Millisecond, first)
	}
	if verifrt.Symbolic() {
		verifrt.RunUntilBlocked(run)
	} else {
		done := make(chan bool, 1)
		go func() { run(); done <- true }()
		select {
		case <-done:
		case <-time.After(200 * time.Millisecond):
			close(interrupt)
			<-done
			ret, err = nil, nil
		}
	}
	written := conn.all()
	if !signalled {
		verifrt.Sig("sendMessages", "before-handshake")
		verifrt.Assert(len(written) == 0, "C18.gate.nothing-written-before-handshake")
		verifrt.Sig("sendMessages", "timeout")
		verifrt.Assert(errors.Cause(err) == ErrTimeout, "C18.gate.handshake-timeout-error")
		verifrt.Sig("sendMessages", "carried")
		verifrt.Assert(ret == first, "C18.gate.carried-message-is-kept")
		for _, p := range all {
			verifrt.Sig("sendMessages", "ack-before-handshake")
			verifrt.Assert(len(p.ack) == 0, "C18.gate.nothing-acked-before-handshake")
		}
		verifrt.Reach("C18.gate.not-signalled")
		verifrt.Reach("C18.gating.done")
		return
	}
	// acked => fully written, in order; the first un-acked message is returned on failure
	off := 0
	failed := false
	for i, p := range all {
		acked := len(p.ack) == 1
		if acked {
			verifrt.Sig("sendMessages", "ack-after-failure")
			verifrt.Assert(!failed, "C18.gate.no-ack-after-a-failed-write")
			verifrt.Sig("sendMessages", "acked-not-written")
			ok := off+len(p.enc) <= len(written) && bytes.Equal(written[off:off+len(p.enc)], p.enc)
			verifrt.Assert(ok, "C18.gate.acked-implies-written-in-order")
			off += len(p.enc)
		} else if !failed {
			failed = true
			verifrt.Sig("sendMessages", "returned")
			verifrt.Assert(err != nil && ret == p.req, "C18.gate.unsent-message-is-carried-to-next-connection")
			verifrt.Reach("C18.gate.write-failed")
		}
		_ = i
	}
	if !failed {
		verifrt.Sig("sendMessages", "all-sent")
		verifrt.Assert(len(written) == off, "C18.gate.only-queued-messages-written")
		verifrt.Reach("C18.gate.all-sent")
	}
	verifrt.Reach("C18.gating.done")
}

// VerifHarness_C18_direct: sendMessage before the handshake completes writes
// only handshake-type messages to the connection.
func VerifHarness_C18_direct() {
	ctx := context.Background()
	c := c18NewClient(ConnectionTypeFull)
	conn := newVkConn()
	c.conn.Store(net.Conn(conn))
	payloads := []MessagePayload{
		&Ready{NextMessageID: 5}, &SubscribeHeaders{}, &SubscribeContracts{}, &UnsubscribeHeaders{},
		&SubscribeTx{}, &SubscribePushData{}, &SubscribeOutputs{},
		&GetTx{}, &GetHeaders{}, &GetChainTip{}, &Ping{}, &ReprocessTx{}, &GetFeeQuotes{}, &MarkHeaderInvalid{},
	}
	p := payloads[verifrt.Choose("payload", len(payloads))]
	var err error
	if verifrt.Symbolic() {
		err = c.sendMessage(ctx, &Message{Payload: p}, 50*time.Millisecond)
	} else {
		err = c.sendMessage(ctx, &Message{Payload: p}, 50*time.Millisecond)
	}
	written := conn.all()
	if IsHandshakeType(p.Type()) {
		verifrt.Sig("sendMessage", "handshake-type")
		verifrt.Assert(err == nil && len(written) > 0, "C18.direct.handshake-messages-go-out")
		verifrt.Reach("C18.direct.handshake-type")
	} else {
		verifrt.Sig("sendMessage", "early-write")
		verifrt.Assert(len(written) == 0, "C18.direct.no-other-request-written-before-handshake")
		verifrt.Sig("sendMessage", "reported-sent")
		verifrt.Assert(err != nil, "C18.direct.never-reported-sent-without-being-written")
		verifrt.Reach("C18.direct.other-type")
	}
	verifrt.Reach("C18.direct.done")
}
