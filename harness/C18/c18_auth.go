//verif:pkg pkg/client
//verif:kit conn
package client

// C18 — server authentication: accept verification.

import (
	"context"

	"github.com/tokenized/pkg/bitcoin"

	"github.com/tokenized/spynode/internal/verifrt"
)

// VerifHarness_C18_accept: a forged or honest accept message against the
// session derived for this connection.
func VerifHarness_C18_accept() {
	ctx := context.Background()
	connType := ConnectionTypeFull
	if verifrt.Choose("connection-type", 2) == 1 {
		connType = ConnectionTypeControl
	}
	c := c18NewClient(connType)

	// what the honest server signed for this connection
	m0 := AcceptRegister{PushDataCount: verifrt.U64("m0.pushdata"), UTXOCount: verifrt.U64("m0.utxo"), MessageCount: verifrt.U64("m0.messages")}
	// what the peer presents
	m := &AcceptRegister{PushDataCount: verifrt.U64("m.pushdata"), UTXOCount: verifrt.U64("m.utxo"), MessageCount: verifrt.U64("m.messages")}
	// the varint width case split (4 per count) is kept for the push-data counts only
	verifrt.Assume(verifrt.And(verifrt.And(m0.UTXOCount < 0xfd, m0.MessageCount < 0xfd), verifrt.And(m.UTXOCount < 0xfd, m.MessageCount < 0xfd)))
	keyChoice := verifrt.Choose("m.key", 2)   // 0: this connection's session key, 1: another key
	sigChoice := verifrt.Choose("m.signature", 2) // 0: the honest signature, 1: any other signature

	var sessionKey, otherKey bitcoin.PublicKey
	var sig0, sigX bitcoin.Signature
	if verifrt.Symbolic() {
		copy(c.hash[:], verifrt.Bytes("session.hash", 32))
		sessionKey, otherKey = c18PubKey(0), c18PubKey(1)
		sig0, sigX = c18Sig("sig0"), c18Sig("sigX")
		verifrt.Assume(verifrt.Not(c18SigEq(&sig0, &sigX)))
	} else {
		// real keys for the native replay
		serverKey, _ := bitcoin.GenerateKey(bitcoin.MainNet)
		attacker, _ := bitcoin.GenerateKey(bitcoin.MainNet)
		for i := range c.hash {
			c.hash[i] = byte(i*7 + 3)
		}
		sessionKey, _ = bitcoin.NextPublicKey(serverKey.PublicKey(), c.hash)
		sessionPriv, _ := bitcoin.NextKey(serverKey, c.hash)
		otherKey = attacker.PublicKey()
		m0.Key = sessionKey
		h0, _ := m0.SigHash(c.hash)
		sig0, _ = sessionPriv.Sign(*h0)
		// the strongest forgery: a perfectly valid signature by the attacker's own key over what he presents
		mm := *m
		if keyChoice == 0 {
			mm.Key = sessionKey
		} else {
			mm.Key = otherKey
		}
		hm, _ := mm.SigHash(c.hash)
		sigX, _ = attacker.Sign(*hm)
	}
	c.serverSessionKey = sessionKey
	m0.Key = sessionKey
	m0.Signature = sig0
	if keyChoice == 0 {
		m.Key = sessionKey
	} else {
		m.Key = otherKey
	}
	if sigChoice == 0 {
		m.Signature = sig0
	} else {
		m.Signature = sigX
	}
	hash0, err0 := m0.SigHash(c.hash)
	hashM, errM := m.SigHash(c.hash)
	verifrt.Assert(err0 == nil && errM == nil, "C18.accept.sighash-ok")
	sameCounts := verifrt.And(verifrt.And(m.PushDataCount == m0.PushDataCount, m.UTXOCount == m0.UTXOCount), m.MessageCount == m0.MessageCount)
	if verifrt.Symbolic() {
		// the honest signature verifies; nobody without the session private key can make
		// another (signature, hash) pair verify under the session key
		verifrt.Assume(sig0.Verify(*hash0, sessionKey))
		if keyChoice == 0 {
			vM := m.Signature.Verify(*hashM, m.Key)
			honest := verifrt.And(c18SigEq(&m.Signature, &sig0), verifrt.BytesEq(hashM[:], hash0[:]))
			verifrt.Assume(verifrt.Implies(vM, honest))
		}
	}
	verifrt.Reach("C18.accept.message-built")

	var herr error
	panicked, what := verifrt.Catch(func() { herr = c.handleMessage(ctx, &Message{Payload: m}) })
	verifrt.Note("accept with key %d sig %d: panic=%v %s err=%v", keyChoice, sigChoice, panicked, what, herr)
	verifrt.Sig("accept", "panic")
	verifrt.Assert(!panicked, "C18.accept.no-panic")
	if panicked {
		return
	}
	accepted := c.accepted.Load().(bool)
	if accepted {
		verifrt.Sig("accept", "wrong-key")
		verifrt.Assert(keyChoice == 0, "C18.accept.only-with-this-connections-session-key")
		verifrt.Sig("accept", "altered-contents")
		verifrt.Assert(sameCounts, "C18.accept.only-contents-the-session-key-signed")
		verifrt.Sig("accept", "error-on-accept")
		verifrt.Assert(herr == nil, "C18.accept.no-error-when-accepted")
		verifrt.Sig("accept", "handshake-flag")
		verifrt.Assert(c.handshakeComplete.Load().(bool) == (connType != ConnectionTypeFull), "C18.accept.handshake-complete-only-for-control-connections")
		verifrt.Reach("C18.accept.accepted")
	} else {
		verifrt.Sig("accept", "silent-failure")
		verifrt.Assert(herr != nil, "C18.accept.failure-fails-the-connection")
		verifrt.Sig("accept", "data-after-failure")
		verifrt.Assert(len(c.handlerChannel) == 0, "C18.accept.no-data-to-handlers-when-not-accepted")
		verifrt.Sig("accept", "handshake-after-failure")
		verifrt.Assert(!c.handshakeComplete.Load().(bool), "C18.accept.no-handshake-when-not-accepted")
		verifrt.Reach("C18.accept.refused")
	}
	// an honest accept is accepted (the check is not vacuous the other way round)
	if keyChoice == 0 && sigChoice == 0 {
		verifrt.Sig("accept", "honest-refused")
		verifrt.Assert(verifrt.Implies(sameCounts, accepted), "C18.accept.honest-server-is-accepted")
	}
	verifrt.Reach("C18.accept.done")
}

