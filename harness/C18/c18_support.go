//verif:pkg pkg/client
//verif:kit conn
package client

// C18 — shared helpers of the C18 harnesses (keys, signatures, client construction).

import (
	"encoding/hex"
	"time"

	"github.com/tokenized/pkg/bitcoin"

	"github.com/tokenized/spynode/internal/verifrt"
)

var c18Keys = []string{
	"0279be667ef9dcbbac55a06295ce870b07029bfcdb2dce28d959f2815b16f81798",
	"02c6047f9441ed7d6d3045406e95c07cd85c778e4b8cef3ca7abac09b95c709ee5",
}

func c18PubKey(i int) bitcoin.PublicKey {
	b, _ := hex.DecodeString(c18Keys[i])
	var k bitcoin.PublicKey
	if err := k.SetBytes(b); err != nil {
		verifrt.Assume(false)
	}
	return k
}

func c18Sig(name string) bitcoin.Signature {
	var s bitcoin.Signature
	rb := verifrt.Bytes(name+".R", 2)
	verifrt.Assume(rb[0] != 0)
	s.R.SetBytes(rb)
	sb := verifrt.Bytes(name+".S", 2)
	verifrt.Assume(sb[0] != 0)
	s.S.SetBytes(sb)
	return s
}

func c18SigEq(a, b *bitcoin.Signature) bool {
	return verifrt.And(verifrt.BytesEq(a.R.Bytes(), b.R.Bytes()), verifrt.BytesEq(a.S.Bytes(), b.S.Bytes()))
}

func c18NewClient(connType ConnectionType) *RemoteClient {
	c := &RemoteClient{
		addRequestsChannel:     make(chan *request, 100),
		removeRequestsChannel:  make(chan *request, 100),
		requestResponseChannel: make(chan *requestResponse, 100),
	}
	c.handlerChannel = make(chan *Message, 10)
	c.sendChannel = make(chan *sendMessageRequest, 10)
	c.messageTimeout.Store(100 * time.Millisecond)
	c.requestTimeout.Store(100 * time.Millisecond)
	c.handshakeTimeout.Store(100 * time.Millisecond)
	c.dialTimeout.Store(500 * time.Millisecond)
	c.accepted.Store(false)
	c.handshakeComplete.Store(false)
	c.isReconnecting.Store(false)
	c.handshakeCompleteChannel.Store(make(chan interface{}, 5))
	c.config.Store(Config{ConnectionType: connType})
	return c
}

