//verif:pkg pkg/client
//verif:kit conn interleave
package client

// C18 — the accept of a connection that is gone must not authenticate the next one.

import (
	"context"
	"math/big"
	"net"
	"time"

	"github.com/tokenized/config"
	"github.com/tokenized/pkg/bitcoin"
	"github.com/tokenized/pkg/wire"

	"github.com/tokenized/spynode/internal/verifrt"
)

// VerifHarness_C18_late_accept: the honest server accepts connection 1 and the connection drops
// at once; the client's handle thread is behind and processes that accept only after the
// connection was torn down (the session hash is still the one it was signed for, so it verifies).
// Connection 2 is then opened - new session, real runConnection - to a server that never proves
// itself and pushes data: none of it reaches the handlers, and connection 2 is not accepted.
func VerifHarness_C18_late_accept() {
	verifrt.Goroutines()
	ctx := context.Background()
	cfg := &Config{
		ConnectionType:        ConnectionTypeFull,
		StartBlockHeight:      100,
		MaxRetries:            50,
		RetryDelay:            config.NewDuration(2 * time.Second),
		RetryError:            config.NewDuration(10 * time.Minute),
		RequestTimeout:        config.NewDuration(20 * time.Second),
		DialTimeout:           config.NewDuration(5 * time.Second),
		HandshakeTimeout:      config.NewDuration(30 * time.Second),
		MessageChannelTimeout: config.NewDuration(30 * time.Second),
		ServerAddress:         "mem",
	}
	var serverKey bitcoin.Key
	if verifrt.Symbolic() {
		kb := verifrt.Bytes("client.key", 32)
		verifrt.Assume(kb[0] != 0)
		var kv big.Int
		kv.SetBytes(kb)
		cfg.ClientKey = bitcoin.KeyFromValue(kv, bitcoin.MainNet)
		cfg.ServerKey = c18PubKey(0)
	} else {
		ck, _ := bitcoin.GenerateKey(bitcoin.MainNet)
		sk, _ := bitcoin.GenerateKey(bitcoin.MainNet)
		serverKey = sk
		cfg.ClientKey = ck
		cfg.ServerKey = sk.PublicKey()
	}
	c, err := NewRemoteClient(cfg)
	verifrt.Assert(err == nil, "C18.session.client-built")
	h := &c18Handler{}
	c.RegisterHandler(h)
	c.handlerChannel = make(chan *Message, 100) // as Run creates it; the harness is the handler thread
	sendChannel := make(chan *sendMessageRequest, 10)
	receiveChannel := make(chan *Message, 10) // the harness is the handle thread, too
	interrupt := make(chan interface{})
	handle := func() {
		for len(receiveChannel) > 0 {
			m := <-receiveChannel
			herr := c.handleMessage(ctx, m)
			verifrt.Note("handled %s: %v", NameForMessageType(m.Payload.Type()), herr)
		}
		for len(c.handlerChannel) > 0 {
			c.processHandler(ctx, <-c.handlerChannel)
		}
	}
	pause := func() {
		if verifrt.Symbolic() {
			verifrt.Quiesce()
		} else {
			time.Sleep(80 * time.Millisecond)
		}
	}

	// ---- connection 1 (what maintainConnection does: new session, then runConnection)
	hash1, serr := c.generateSession(c.config.Load().(Config))
	verifrt.Assert(serr == nil, "C18.late-accept.session")
	conn1 := newVkPipe()
	c.conn.Store(net.Conn(conn1))
	run1 := &c18ConnRun{}
	go func() {
		run1.ret, run1.err = c.runConnection(ctx, net.Conn(conn1), sendChannel, receiveChannel, nil, interrupt)
		run1.done = true
	}()
	pause()
	accept := &AcceptRegister{PushDataCount: 1, UTXOCount: 2, MessageCount: 3}
	if verifrt.Symbolic() {
		c.sessionLock.Lock()
		accept.Key = c.serverSessionKey
		c.sessionLock.Unlock()
		accept.Signature = c18Sig("accept.signature")
		sh, herr := accept.SigHash(*hash1)
		verifrt.Assume(herr == nil)
		verifrt.Assume(accept.Signature.Verify(*sh, accept.Key)) // the honest server's signature verifies
	} else {
		sk, kerr := bitcoin.NextKey(serverKey, *hash1)
		if kerr != nil {
			verifrt.Assume(false)
		}
		accept.Key = sk.PublicKey()
		sh, _ := accept.SigHash(*hash1)
		accept.Signature, _ = sk.Sign(*sh)
	}
	conn1.feed(c18Enc(accept))
	conn1.hangUp()
	pause()
	verifrt.Sig("connection 1", "ended")
	verifrt.Assert(run1.done, "C18.late-accept.drop-ends-the-connection")
	if !run1.done {
		return
	}
	// the handle thread catches up now: the accept of the connection that is gone
	handle()
	verifrt.Reach("C18.late-accept.accept-handled-after-the-tear-down")

	// ---- connection 2
	_, serr = c.generateSession(c.config.Load().(Config))
	verifrt.Assert(serr == nil, "C18.late-accept.session")
	conn2 := newVkPipe()
	c.conn.Store(net.Conn(conn2))
	run2 := &c18ConnRun{}
	go func() {
		run2.ret, run2.err = c.runConnection(ctx, net.Conn(conn2), sendChannel, receiveChannel, run1.ret, interrupt)
		run2.done = true
	}()
	pause()
	verifrt.Sig("connection 2", "accepted")
	verifrt.Assert(!c.accepted.Load().(bool), "C18.late-accept.next-connection-is-not-accepted-by-an-earlier-accept")
	before := len(h.events) + len(h.ids())
	tx := wire.NewMsgTx(1)
	conn2.feed(c18Enc(&Tx{ID: c.NextMessageID(), Tx: tx}))
	conn2.feed(c18Enc(&InSync{}))
	pause()
	handle()
	verifrt.Sig("connection 2", "data")
	verifrt.Assert(len(h.events)+len(h.ids()) == before, "C18.late-accept.no-data-reaches-handlers-before-a-valid-accept")
	close(interrupt)
	pause()
	verifrt.Reach("C18.late-accept.done")
}
