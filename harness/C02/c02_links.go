//verif:pkg internal/spynode
//verif:kit memstore nodekit synckit interleave
package spynode

// C02 — the stored chain stays hash-linked and grows only at its tip for any
// sequence of trusted-peer messages (adversarial peer: no well-behavedness).

import (
	"context"

	"github.com/tokenized/pkg/bitcoin"
	"github.com/tokenized/pkg/wire"

	"github.com/tokenized/spynode/internal/verifrt"
)

func VerifHarness_C02_links() {
	ctx := context.Background()
	nEvents := 3
	if verifrt.Thorough() {
		nEvents = 4
	}
	k, err := vkNewNode(ctx, nil)
	verifrt.Assert(err == nil, "C02.kit.node-loads")
	node, rec := k.node, k.rec
	node.state.SetVersionReceived()
	tree := vkNewTree(*node.blocks.LastHash())
	tree.add("a1", "", nil)
	tree.add("a2", "a1", []*wire.MsgTx{vkTx(1, []int{0}, true)})
	tree.add("a3", "a2", nil)
	tree.add("b2", "a1", []*wire.MsgTx{vkTx(2, []int{0}, true)})
	tree.add("b3", "b2", nil)
	tree.addOrphan("x")

	switch verifrt.Choose("start-block", 3) {
	case 0: // the start block is below the chain: every block is downloaded
	case 1:
		vkSetStart(ctx, k, tree.hashOf("a2"))
	case 2: // never seen: headers are only recorded
		var never bitcoin.Hash32
		never[0] = 0x99
		vkSetStart(ctx, k, never)
	}

	headerLists := [][]string{
		{}, {"a1"}, {"a2"}, {"a3"}, {"b2"}, {"b3"}, {"x"},
		{"a1", "a2"}, {"a2", "a3"}, {"b2", "b3"}, {"a2", "b2"}, {"a3", "a2"}, {"a1", "a1"},
	}
	steps := []string{"e0", "e1", "e2", "e3"}
	lastAnnounced := -1
	interleaves := 1
	for e := 0; e < nEvents; e++ {
		mark := len(rec.events)
		kind := verifrt.Choose(steps[e]+".event", 3)
		switch kind {
		case 0:
			names := headerLists[verifrt.Choose(steps[e]+".headers", len(headerLists))]
			var herr error
			panicked, what := verifrt.Catch(func() { herr = node.handleMessage(ctx, tree.headerMsg(names...)) })
			verifrt.Note("headers %v: panic=%v %s err=%v", names, panicked, what, herr)
			verifrt.Sig("headers", "panic")
			verifrt.Assert(!panicked, "C02.headers.no-panic")
		case 1:
			name := tree.names[verifrt.Choose(steps[e]+".block", len(tree.names))]
			var herr error
			panicked, what := verifrt.Catch(func() { herr = node.handleMessage(ctx, tree.blocks[name]) })
			verifrt.Note("block %s: panic=%v %s err=%v", name, panicked, what, herr)
			verifrt.Sig("block", "panic")
			verifrt.Assert(!panicked, "C02.block.no-panic")
		case 2:
			var perr error
			// the message-handling goroutine may handle a headers message between ProcessBlock's
			// "is this the next block" check and the moment it adds the header (once per history)
			if interleaves > 0 {
				vkInterleave = func(point string) {
					if interleaves > 0 && verifrt.Choose(steps[e]+".headers-handled-inside-ProcessBlock", 2) == 1 {
						interleaves--
						names := headerLists[verifrt.Choose(steps[e]+".interleaved-headers", len(headerLists))]
						verifrt.RunUntilBlocked(func() { node.handleMessage(ctx, tree.headerMsg(names...)) })
						verifrt.Note("headers %v handled at %s", names, point)
						verifrt.Reach("C02.interleaved")
					}
				}
			}
			panicked, what := verifrt.Catch(func() { perr = vkProcessRun(ctx, node) })
			vkInterleave = nil
			verifrt.Note("processing run: panic=%v %s err=%v", panicked, what, perr)
			verifrt.Sig("process", "panic")
			verifrt.Assert(!panicked, "C02.process.no-panic")
			verifrt.Sig("process", "err")
			verifrt.Assert(perr == nil, "C02.process.no-error")
			verifrt.Reach("C02.event.process")
		}
		vkChainLinked(ctx, node, steps[e])
		// hash -> height is the inverse of height -> hash for EVERY hash the peer ever used, in
		// particular for blocks a reorganisation removed
		for _, name := range tree.names {
			hash := tree.hashOf(name)
			if h, ok := node.blocks.Height(&hash); ok {
				at, herr := node.blocks.Hash(ctx, h)
				verifrt.Sig("lookup", "inverse")
				verifrt.Assert(herr == nil && at != nil && *at == hash, "C02.lookup.hash-to-height-is-inverse-of-height-to-hash")
			}
		}
		if k.store.find("spynode/reorgs/active") >= 0 {
			verifrt.Reach("C02.reorg.recorded")
		}
		// everything announced to handlers in this step sits in the store at that height, on its parent
		for _, ev := range rec.events[mark:] {
			if ev.kind != "headers" {
				continue
			}
			at, aerr := node.blocks.Hash(ctx, ev.height)
			verifrt.Sig("announce", "stored")
			verifrt.Assert(aerr == nil && at != nil && *at == ev.hash, "C02.announce.announced-block-is-stored-at-that-height")
			verifrt.Sig("announce", "contiguous")
			verifrt.Assert(ev.height >= 1 && ev.height <= lastAnnounced+1 || lastAnnounced < 0, "C02.announce.heights-contiguous-or-restart-at-fork")
			lastAnnounced = ev.height
			verifrt.Reach("C02.announce.seen")
		}
		// requests never ask for a block the store already holds
		for _, m := range vkOutgoing(node) {
			if gd, ok := m.(*wire.MsgGetData); ok {
				for _, iv := range gd.InvList {
					h := iv.Hash
					verifrt.Sig("getdata", "already-stored")
					verifrt.Assert(!node.blocks.Contains(&h), "C02.request.never-for-a-stored-block")
				}
			}
		}
	}
	verifrt.Reach("C02.links.done")
}

// VerifHarness_C02_race: a1, a2 are stored, the body of a3 is buffered; while ProcessBlock(a3) is
// between its next-block check and the moment it adds the header, the message-handling goroutine
// handles a headers message (any list of the tree, in particular a fork off a1 that reverts a2).
func VerifHarness_C02_race() {
	ctx := context.Background()
	k, err := vkNewNode(ctx, nil)
	verifrt.Assert(err == nil, "C02.kit.node-loads")
	node := k.node
	node.state.SetVersionReceived()
	tree := vkNewTree(*node.blocks.LastHash())
	tree.add("a1", "", nil)
	tree.add("a2", "a1", []*wire.MsgTx{vkTx(1, []int{0}, true)})
	tree.add("a3", "a2", nil)
	tree.add("b2", "a1", []*wire.MsgTx{vkTx(2, []int{0}, true)})
	tree.add("b3", "b2", nil)
	node.handleMessage(ctx, tree.headerMsg("a1", "a2", "a3"))
	vkOutgoing(node)
	node.handleMessage(ctx, tree.blocks["a1"])
	node.handleMessage(ctx, tree.blocks["a2"])
	verifrt.Assume(vkProcessRun(ctx, node) == nil)
	verifrt.Assume(node.blocks.LastHeight() == 2)
	node.handleMessage(ctx, tree.blocks["a3"])
	lists := [][]string{{"b2"}, {"b2", "b3"}, {"a3"}, {"a2"}, {}}
	names := lists[verifrt.Choose("interleaved-headers", len(lists))]
	done := false
	vkInterleave = func(point string) {
		if !done {
			done = true
			verifrt.RunUntilBlocked(func() { node.handleMessage(ctx, tree.headerMsg(names...)) })
			verifrt.Reach("C02.race.interleaved")
		}
	}
	perr := vkProcessRun(ctx, node)
	vkInterleave = nil
	verifrt.Note("headers %v handled inside ProcessBlock(a3): err=%v, height %d", names, perr, node.blocks.LastHeight())
	vkChainLinked(ctx, node, "race")
	for _, name := range tree.names {
		hash := tree.hashOf(name)
		if h, ok := node.blocks.Height(&hash); ok {
			at, herr := node.blocks.Hash(ctx, h)
			verifrt.Sig("race", "inverse")
			verifrt.Assert(herr == nil && at != nil && *at == hash, "C02.lookup.hash-to-height-is-inverse-of-height-to-hash")
		}
	}
	verifrt.Reach("C02.race.done")
}
