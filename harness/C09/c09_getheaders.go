//verif:pkg internal/spynode
//verif:kit memstore
package spynode

// C09 — header range query (Node.GetHeaders / BlockHash) with symbolic
// request height and symbolic maximum count.

import (
	"context"

	"github.com/tokenized/pkg/bitcoin"
	"github.com/tokenized/pkg/wire"
	"github.com/tokenized/spynode/internal/platform/config"
	"github.com/tokenized/spynode/internal/storage"

	"github.com/tokenized/spynode/internal/verifrt"
)

func c09ghHeader(prev bitcoin.Hash32, n int) wire.BlockHeader {
	var mr bitcoin.Hash32
	mr[0], mr[1], mr[2] = byte(n), byte(n>>8), 0x9a
	return wire.BlockHeader{Version: 1, PrevBlock: prev, MerkleRoot: mr,
		Timestamp: uint32(1600000000 + n*600), Bits: 0x1d00ffff, Nonce: uint32(n)}
}

func VerifHarness_C09_getheaders() {
	ctx := context.Background()
	verifrt.SymbolicFormat(true)
	store := newVkStore()
	cfg := config.Config{Net: bitcoin.MainNet}
	repo := storage.NewBlockRepository(cfg, store)
	if err := repo.Load(ctx); err != nil {
		verifrt.Assert(false, "C09.load.empty-store")
	}
	g, _ := repo.Header(ctx, 0)
	ref := []wire.BlockHeader{*g}
	tips := []int{0, 2, 5, 9}
	tip := tips[verifrt.Choose("tip", len(tips))]
	prev := *g.BlockHash()
	for n := 1; n <= tip; n++ {
		h := c09ghHeader(prev, n)
		if err := repo.Add(ctx, &h); err != nil {
			verifrt.Assert(false, "C09.add.no-error")
		}
		ref = append(ref, h)
		prev = *h.BlockHash()
	}
	if verifrt.Choose("saved", 2) == 1 {
		repo.Save(ctx)
	}
	node := &Node{blocks: repo}

	h := verifrt.Int("request.height")
	verifrt.Assume(verifrt.And(h >= -(1<<31), h < (1<<31))) // int32 on the wire
	c := verifrt.IntRange("request.maxcount", 0, (1<<32)-1) // uint32 on the wire
	var res interface{ isNil() bool }
	_ = res
	var got []*wire.BlockHeader
	var start uint32
	var err error
	panicked, what := verifrt.Catch(func() {
		r, e := node.GetHeaders(ctx, h, c)
		err = e
		if r != nil {
			got = r.Headers
			start = r.StartHeight
		}
	})
	verifrt.Note("GetHeaders(%d,%d) tip=%d -> %d headers start=%d err=%v panic=%v %s", h, c, tip, len(got), start, err, panicked, what)
	verifrt.Sig("GetHeaders", "panic")
	verifrt.Assert(!panicked, "C09.range.no-panic")
	if panicked {
		return
	}
	// expected window
	want := 0
	first := 0
	switch {
	case h == -1:
		want = tip + 1
		if c < want {
			want = c
		}
		first = tip - want + 1
		verifrt.Reach("C09.range.most-recent")
	case h >= 0 && h <= tip:
		want = tip - h + 1
		if c < want {
			want = c
		}
		first = h
		verifrt.Reach("C09.range.in-range")
	default:
		want = 0
		verifrt.Reach("C09.range.out-of-range")
	}
	if want == 0 {
		verifrt.Sig("GetHeaders", "empty")
		verifrt.Assert(err != nil || len(got) == 0, "C09.range.out-of-range-is-error-or-empty")
	} else {
		verifrt.Sig("GetHeaders", "count")
		verifrt.Assert(err == nil && len(got) == want, "C09.range.count-is-min-of-requested-and-available")
		if err == nil && len(got) == want {
			verifrt.Sig("GetHeaders", "start")
			verifrt.Assert(int(start) == first, "C09.range.start-height")
			for i := 0; i < want; i++ {
				verifrt.Sig("GetHeaders", "content")
				verifrt.Assert(got[i] != nil && *got[i] == ref[first+i], "C09.range.consecutive-headers")
			}
		}
	}
	// BlockHash: -1 is the tip, in range is that height, otherwise error
	hash, herr := node.BlockHash(ctx, h)
	switch {
	case h == -1:
		verifrt.Sig("BlockHash", "tip")
		verifrt.Assert(herr == nil && hash != nil && *hash == *ref[tip].BlockHash(), "C09.blockhash.minus-one-is-tip")
	case h >= 0 && h <= tip:
		verifrt.Sig("BlockHash", "in-range")
		verifrt.Assert(herr == nil && hash != nil && *hash == *ref[h].BlockHash(), "C09.blockhash.in-range")
	default:
		verifrt.Sig("BlockHash", "out-of-range")
		verifrt.Assert(herr != nil || hash == nil, "C09.blockhash.out-of-range-is-error")
	}
	verifrt.Reach("C09.getheaders.done")
}
