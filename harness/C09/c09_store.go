//verif:pkg internal/storage
//verif:kit memstore
package storage

// C09 — block store vs. an abstract list of headers, across add / revert /
// save / reload, with fully symbolic out-of-range query heights.

import (
	"context"

	"github.com/tokenized/pkg/bitcoin"
	"github.com/tokenized/pkg/wire"
	"github.com/tokenized/spynode/internal/platform/config"

	"github.com/tokenized/spynode/internal/verifrt"
)

func c09Header(prev bitcoin.Hash32, n int) wire.BlockHeader {
	var mr bitcoin.Hash32
	mr[0], mr[1], mr[2] = byte(n), byte(n>>8), 0x09
	return wire.BlockHeader{Version: 1, PrevBlock: prev, MerkleRoot: mr,
		Timestamp: uint32(1600000000 + n*600), Bits: 0x1d00ffff, Nonce: uint32(n)}
}

type c09Ref struct {
	headers []wire.BlockHeader
	hashes  []bitcoin.Hash32
	removed []bitcoin.Hash32 // hashes that were reverted away
	serial  int
}

func (r *c09Ref) tip() int { return len(r.headers) - 1 }

func (r *c09Ref) add(repo *BlockRepository, ctx context.Context, k int) {
	for j := 0; j < k; j++ {
		r.serial++
		h := c09Header(r.hashes[len(r.hashes)-1], r.serial)
		err := repo.Add(ctx, &h)
		verifrt.Sig("Add", "err")
		verifrt.Assert(err == nil, "C09.add.no-error")
		r.headers = append(r.headers, h)
		r.hashes = append(r.hashes, *h.BlockHash())
	}
}

// c09Sweep compares every in-range answer with the reference.
func c09Sweep(repo *BlockRepository, r *c09Ref, ctx context.Context, when string) {
	verifrt.Sig(when, "tip-height")
	verifrt.Assert(repo.LastHeight() == r.tip(), "C09.tip.height")
	verifrt.Sig(when, "tip-hash")
	verifrt.Assert(*repo.LastHash() == r.hashes[r.tip()], "C09.tip.hash")
	th, err := repo.Header(ctx, -1)
	verifrt.Sig(when, "header-minus-one")
	verifrt.Assert(err == nil && th != nil && *th.BlockHash() == r.hashes[r.tip()], "C09.header.minus-one-is-tip")
	for h := 0; h <= r.tip(); h++ {
		hash, err := repo.Hash(ctx, h)
		verifrt.Sig(when, "hash")
		verifrt.Assert(err == nil && hash != nil && *hash == r.hashes[h], "C09.by-height.hash")
		hdr, err := repo.Header(ctx, h)
		verifrt.Sig(when, "header")
		verifrt.Assert(err == nil && hdr != nil && *hdr == r.headers[h], "C09.by-height.header")
		tm, err := repo.Time(ctx, h)
		verifrt.Sig(when, "time")
		verifrt.Assert(err == nil && tm == r.headers[h].Timestamp, "C09.by-height.time")
		hh := r.hashes[h]
		got, ok := repo.Height(&hh)
		verifrt.Sig(when, "height")
		verifrt.Assert(ok && got == h, "C09.by-hash.height")
		verifrt.Sig(when, "contains")
		verifrt.Assert(repo.Contains(&hh), "C09.by-hash.contains")
	}
	for i := range r.removed {
		hh := r.removed[i]
		verifrt.Sig(when, "removed-contains")
		verifrt.Assert(!repo.Contains(&hh), "C09.by-hash.reverted-hash-gone")
	}
}

// c09OutOfRange asks for a fully symbolic height outside [0, tip] (the
// documented -1 of Header excluded) and requires an error or an empty
// answer, never a panic and never a header.
func c09OutOfRange(repo *BlockRepository, r *c09Ref, ctx context.Context, when string) {
	h := verifrt.Int("query.height")
	verifrt.Assume(verifrt.Or(h < 0, h > r.tip()))
	which := verifrt.Choose("query.kind", 3)
	switch which {
	case 0:
		panicked, what := verifrt.Catch(func() {
			hash, err := repo.Hash(ctx, h)
			verifrt.Sig(when, "oor-hash")
			verifrt.Assert(err != nil || hash == nil, "C09.out-of-range.hash-is-error")
		})
		verifrt.Note("Hash(out of range) panic=%v %s", panicked, what)
		verifrt.Sig(when, "oor-hash-panic")
		verifrt.Assert(!panicked, "C09.out-of-range.hash-no-panic")
	case 1:
		panicked, what := verifrt.Catch(func() {
			tm, err := repo.Time(ctx, h)
			verifrt.Sig(when, "oor-time")
			verifrt.Assert(err != nil || tm == 0, "C09.out-of-range.time-is-error-or-zero")
		})
		verifrt.Note("Time(out of range) panic=%v %s", panicked, what)
		verifrt.Sig(when, "oor-time-panic")
		verifrt.Assert(!panicked, "C09.out-of-range.time-no-panic")
	case 2:
		verifrt.Assume(h != -1)
		panicked, what := verifrt.Catch(func() {
			hdr, err := repo.Header(ctx, h)
			verifrt.Sig(when, "oor-header")
			verifrt.Assert(err != nil || hdr == nil, "C09.out-of-range.header-is-error")
		})
		verifrt.Note("Header(out of range) panic=%v %s", panicked, what)
		verifrt.Sig(when, "oor-header-panic")
		verifrt.Assert(!panicked, "C09.out-of-range.header-no-panic")
	}
}

func c09RevertTargets(tip, per int) []int {
	// valid targets around the file boundaries, plus the two invalid neighbours of the range
	cands := []int{-1, 0, 1, per - 2, per - 1, per, per + 1, 2*per - 1, 2 * per, 2*per + 1, tip - 1, tip, tip + 1}
	var out []int
	for _, c := range cands {
		if c < -1 || c > tip+1 {
			continue
		}
		dup := false
		for _, o := range out {
			if o == c {
				dup = true
			}
		}
		if !dup {
			out = append(out, c)
		}
	}
	return out
}

func VerifHarness_C09_ops() {
	ctx := context.Background()
	verifrt.SymbolicFormat(true)
	nOps := 3
	if verifrt.Thorough() {
		nOps = 4
	}
	per := blocksPerKey
	store := newVkStore()
	store.removeMissingOK = verifrt.Choose("remove-missing-ok", 2) == 1
	cfg := config.Config{Net: bitcoin.MainNet}
	repo := NewBlockRepository(cfg, store)
	err := repo.Load(ctx)
	verifrt.Assert(err == nil, "C09.load.empty-store")
	ref := &c09Ref{}
	g, _ := repo.Header(ctx, 0)
	ref.headers = append(ref.headers, *g)
	ref.hashes = append(ref.hashes, *g.BlockHash())
	adds := []int{1, per - 1, per, per + 1}
	steps := []string{"s0", "s1", "s2", "s3", "s4"}
	dirty := false // the chain differs from what the last Save wrote
	for s := 0; s < nOps; s++ {
		nAlt := 5
		if s == 0 {
			nAlt = 1
		}
		switch verifrt.Choose(steps[s]+".op", nAlt) {
		case 4:
			// Load on the SAME repository object, in the two situations where the outcome is not a
			// matter of interpretation: nothing has changed since the last save (no-op), or nothing
			// was ever written (the chain is the genesis block again)
			empty := len(store.ents) == 0
			verifrt.Assume(empty || !dirty)
			err := repo.Load(ctx)
			verifrt.Sig("Load", "same-object")
			verifrt.Assert(err == nil, "C09.load.same-object-no-error")
			if empty {
				ref.removed = append(ref.removed, ref.hashes[1:]...)
				ref.headers = ref.headers[:1]
				ref.hashes = ref.hashes[:1]
			} else {
				ref.removed = nil
			}
			dirty = false
			verifrt.Reach("C09.loaded-same-object")
			c09Sweep(repo, ref, ctx, "after-load-same-object")
		case 0:
			k := adds[verifrt.Choose(steps[s]+".count", len(adds))]
			ref.add(repo, ctx, k)
			dirty = true
			c09Sweep(repo, ref, ctx, "after-add")
		case 1:
			ts := c09RevertTargets(ref.tip(), per)
			t := ts[verifrt.Choose(steps[s]+".target", len(ts))]
			var err error
			panicked, what := verifrt.Catch(func() { err = repo.Revert(ctx, t) })
			verifrt.Note("Revert(%d) at tip %d: panic=%v %s err=%v", t, ref.tip(), panicked, what, err)
			verifrt.Sig("Revert", "panic")
			verifrt.Assert(!panicked, "C09.revert.no-panic")
			if t < 0 || t > ref.tip() {
				// not a height of the chain: refused, and (like every failed revert) nothing changes
				verifrt.Sig("Revert", "invalid-target")
				verifrt.Assert(err != nil, "C09.revert.invalid-target-is-refused")
				verifrt.Reach("C09.revert.invalid-target")
				c09Sweep(repo, ref, ctx, "after-refused-revert")
				if err != nil {
					shadow := NewBlockRepository(cfg, store.clone())
					serr := shadow.Load(ctx)
					verifrt.Sig("Revert", "image-after-refusal")
					verifrt.Assert(serr == nil && shadow.LastHeight() <= ref.tip(), "C09.revert.refused-revert-leaves-a-loadable-image")
				}
				continue
			}
			// without storage faults a revert to a height of the chain succeeds
			verifrt.Sig("Revert", "err")
			verifrt.Assert(err == nil, "C09.revert.valid-target-succeeds")
			if err != nil {
				// a failed revert must leave every answer unchanged
				verifrt.Reach("C09.revert.failed")
				c09Sweep(repo, ref, ctx, "after-failed-revert")
			} else {
				ref.removed = append(ref.removed, ref.hashes[t+1:]...)
				ref.headers = ref.headers[:t+1]
				ref.hashes = ref.hashes[:t+1]
				verifrt.Reach("C09.revert.ok")
				dirty = true
				c09Sweep(repo, ref, ctx, "after-revert")
				// the files a revert leaves behind load to the same chain (no stale or missing file)
				shadow := NewBlockRepository(cfg, store.clone())
				serr := shadow.Load(ctx)
				verifrt.Sig("Revert", "image-load")
				verifrt.Assert(serr == nil, "C09.revert.persistent-image-loads")
				if serr == nil {
					saved := ref.removed
					ref.removed = nil
					c09Sweep(shadow, ref, ctx, "image-after-revert")
					ref.removed = saved
				}
			}
		case 2:
			err := repo.Save(ctx)
			verifrt.Sig("Save", "err")
			verifrt.Assert(err == nil, "C09.save.no-error")
			dirty = false
			c09Sweep(repo, ref, ctx, "after-save")
		case 3:
			// save, then load into a fresh repository: must reproduce the chain
			err := repo.Save(ctx)
			verifrt.Sig("Save", "err")
			verifrt.Assert(err == nil, "C09.save.no-error")
			repo = NewBlockRepository(cfg, store)
			err = repo.Load(ctx)
			verifrt.Sig("Load", "err")
			verifrt.Assert(err == nil, "C09.reload.no-error")
			ref.removed = nil // a reloaded store legitimately knows nothing about them either way
			dirty = false
			verifrt.Reach("C09.reloaded")
			c09Sweep(repo, ref, ctx, "after-reload")
		}
	}
	c09OutOfRange(repo, ref, ctx, "final")
	verifrt.Reach("C09.ops.done")
}
