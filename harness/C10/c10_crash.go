//verif:pkg internal/spynode
//verif:kit memstore nodekit synckit worldkit interleave
package spynode

// C10 — a crash after any storage mutation, or any single failing storage
// operation, during sync / reorganisation / shutdown leaves a store a new node
// can resume from.

import (
	"context"

	"github.com/tokenized/pkg/wire"
	"github.com/tokenized/spynode/internal/handlers"

	"github.com/tokenized/spynode/internal/verifrt"
)

// c10Scenario: sync the main chain, get in sync (saves), reorganise from depth d
// onto a longer branch, process it, shut down (saves).
func c10Scenario(w *c01World, forkTip string) {
	w.settle(4) // initial sync to the peer's tip, in-sync notification
	if !w.dead && !w.headersOnly {
		// a relevant transaction arrives unconfirmed (the first block of the new branch will confirm
		// it): its storage writes are crash / fault points like any other
		perr := w.k.node.processUnconfirmedTx(w.ctx, handlers.TxData{Msg: vkTx(2, []int{0}, true), Trusted: true, ConfirmedHeight: -1})
		if perr != nil {
			verifrt.Note("unconfirmed tx not processed: %v", perr)
		}
	}
	w.peer.setBest(forkTip)
	w.settle(4)
	if w.dead {
		return
	}
	n := w.k.node
	n.blocks.Save(w.ctx)
	n.txs.Save(w.ctx)
	n.peers.Save(w.ctx)
}

func c10World(ctx context.Context, depth int, headersOnly bool) (*c01World, string, string) {
	k, err := vkNewNode(ctx, nil)
	verifrt.Assert(err == nil, "C10.kit.node-loads")
	if headersOnly {
		vkHeadersOnly(ctx, k)
	}
	k.node.state.SetVersionReceived()
	k.node.state.MarkConnected()
	tree := vkNewTree(*k.node.blocks.LastHash())
	names := []string{"a1", "a2", "a3", "a4", "a5", "a6", "a7"}
	parent := ""
	for i, n := range names {
		var txs []*wire.MsgTx
		if i == 4 {
			txs = []*wire.MsgTx{vkTx(1, []int{0}, true)}
		}
		tree.add(n, parent, txs)
		parent = n
	}
	// fork of depth d: branches off a(7-d), one block longer than the part it replaces
	base := names[len(names)-1-depth]
	parent = base
	tip := ""
	for j := 0; j <= depth; j++ {
		nm := "b" + string(rune('1'+j))
		var txs []*wire.MsgTx
		if j == 0 {
			txs = []*wire.MsgTx{vkTx(2, []int{0}, true)}
		}
		tree.add(nm, parent, txs)
		parent = nm
		tip = nm
	}
	w := &c01World{ctx: ctx, k: k, tree: tree, heard: map[string]bool{}, tolerant: true, headersOnly: headersOnly}
	w.peer = vkNewPeer(tree, "a7")
	return w, tip, base
}

// c10Resume: a new node on the surviving storage loads a hash-linked chain that
// lies entirely on one announced branch, and converges again.
func c10Resume(ctx context.Context, w *c01World, image *vkStore, forkTip string, when string) {
	k2, err := vkNewNode(ctx, image)
	verifrt.Sig(when, "load")
	verifrt.Assert(err == nil, "C10.resume.new-node-loads-without-error")
	if err != nil {
		return
	}
	if w.headersOnly {
		vkHeadersOnly(ctx, k2)
	}
	vkChainLinked(ctx, k2.node, when)
	// entirely on one branch: a prefix of the old chain or of the new chain
	oldChain := w.tree.chainTo("a7")
	newChain := w.tree.chainTo(forkTip)
	tip := k2.node.blocks.LastHeight()
	onOld, onNew := tip <= len(oldChain), tip <= len(newChain)
	for h := 1; h <= tip; h++ {
		hash, herr := k2.node.blocks.Hash(ctx, h)
		if herr != nil || hash == nil {
			onOld, onNew = false, false
			break
		}
		if h > len(oldChain) || *hash != w.tree.hashes[oldChain[h-1]] {
			onOld = false
		}
		if h > len(newChain) || *hash != w.tree.hashes[newChain[h-1]] {
			onNew = false
		}
	}
	verifrt.Note("%s: resumed at height %d, on old branch %v, on new branch %v", when, tip, onOld, onNew)
	verifrt.Sig(when, "mixture")
	verifrt.Assert(onOld || onNew, "C10.resume.chain-is-on-one-announced-branch-never-a-mixture")
	// and from there it converges to the peer's best chain
	k2.node.state.SetVersionReceived()
	k2.node.state.MarkConnected()
	// ... block by block, with a clean stop and restart after every block of the new branch: whatever
	// the crash left behind above the resumed tip (a stale header file) must not come back either
	k := k2
	for _, upTo := range newChain {
		if len(w.tree.chainTo(upTo)) <= k.node.blocks.LastHeight() {
			continue // the peer's chain only ever gets longer than what the node holds
		}
		wk := &c01World{ctx: ctx, k: k, tree: w.tree, heard: map[string]bool{}, headersOnly: w.headersOnly}
		wk.peer = vkNewPeer(w.tree, upTo)
		wk.settle(6)
		verifrt.Sig(when, "converge")
		verifrt.Assert(wk.converged(), "C10.resume.converges-to-the-peers-best-chain")
		if !wk.converged() {
			return
		}
		k.node.blocks.Save(ctx)
		k.node.txs.Save(ctx)
		k.node.peers.Save(ctx)
		kn, lerr := vkNewNode(ctx, k.store)
		verifrt.Sig(when, "reload")
		verifrt.Assert(lerr == nil, "C10.resume.clean-restart-later-loads")
		if lerr != nil {
			return
		}
		if w.headersOnly {
			vkHeadersOnly(ctx, kn)
		}
		vkChainLinked(ctx, kn.node, when+" later")
		want := w.tree.hashes[upTo]
		verifrt.Sig(when, "reload-tip")
		verifrt.Assert(*kn.node.blocks.LastHash() == want && kn.node.blocks.LastHeight() == len(w.tree.chainTo(upTo)), "C10.resume.clean-restart-later-holds-the-chain-it-saved")
		kn.node.state.SetVersionReceived()
		kn.node.state.MarkConnected()
		k = kn
	}
}

// VerifHarness_C10_crash: the process dies right after the c-th storage mutation.
func VerifHarness_C10_crash() {
	ctx := context.Background()
	maxDepth := 3 // depth 3 reverts into the middle of a header file with a whole file above it
	if verifrt.Thorough() {
		maxDepth = 6
	}
	depth := 1 + verifrt.Choose("reorg-depth", maxDepth)
	// the node downloads every block, or is still before its start block (headers only)
	headersOnly := verifrt.Choose("headers-only-phase", 2) == 1
	w, forkTip, _ := c10World(ctx, depth, headersOnly)
	store := w.k.store
	store.removeMissingOK = verifrt.Choose("remove-missing-ok", 2) == 1
	// symbolic crash point: every mutation index is a feasible value
	store.crashAfter = verifrt.IntRange("crash-after-mutation", 0, 200)
	c10Scenario(w, forkTip)
	verifrt.Note("scenario issued %d storage mutations", store.mutations)
	if store.crashAfter >= store.mutations {
		verifrt.Reach("C10.crash.after-the-scenario")
	} else {
		verifrt.Reach("C10.crash.mid-scenario")
	}
	c10Resume(ctx, w, store.clone(), forkTip, "crash")
	verifrt.Reach("C10.crash.done")
}

// VerifHarness_C10_fault: the j-th storage operation returns an error.
func VerifHarness_C10_fault() {
	ctx := context.Background()
	// (depth 6 reverts from the third header file into the first one: two whole files are removed
	// before the surviving one is re-written)
	depth := 1 + verifrt.Choose("reorg-depth", 6)
	headersOnly := verifrt.Choose("headers-only-phase", 2) == 1
	w, forkTip, _ := c10World(ctx, depth, headersOnly)
	store := w.k.store
	store.failOp = verifrt.IntRange("failing-operation", 0, 400)
	panicked, what := verifrt.Catch(func() { c10Scenario(w, forkTip) })
	verifrt.Note("scenario with failing operation: panic=%v %s, %d operations issued", panicked, what, store.ops)
	verifrt.Sig("fault", "panic")
	verifrt.Assert(!panicked, "C10.fault.no-panic")
	if store.failed {
		verifrt.Reach("C10.fault.injected")
	}
	img := store.clone()
	c10Resume(ctx, w, img, forkTip, "fault")
	verifrt.Reach("C10.fault.done")
}
