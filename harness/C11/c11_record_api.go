//verif:pkg internal/storage
//verif:kit memstore
package storage

// C11 — the unconfirmed-transaction record survives a clean stop when it was built through the
// repository's own methods: a short history of Add / MarkUnsafe / MarkTrusted / GetNewSafe /
// Remove calls with saves in between (the save after a block), then the save of the clean stop
// and a load by a new repository.  Every entry that was tracked at the stop must come back with
// the flags and the first-seen time it had, whichever call changed them last.

import (
	"context"
	"time"

	"github.com/tokenized/pkg/bitcoin"

	"github.com/tokenized/spynode/internal/state"
	"github.com/tokenized/spynode/internal/verifrt"
)

func VerifHarness_C11_record_api() {
	ctx := context.Background()
	nOps := 3
	if verifrt.Thorough() {
		nOps = 4
	}
	store := newVkStore()
	repo := NewTxRepository(store)
	verifrt.Assert(repo.Load(ctx) == nil, "C11.api.empty-load-ok")
	pool := state.NewMemPool()
	var ids [2]bitcoin.Hash32
	ids[0][0], ids[0][1] = 0x11, 0xa1
	ids[1][0], ids[1][1] = 0x11, 0xa2
	for i := 0; i < nOps; i++ {
		verifrt.Advance(700 * time.Millisecond)
		switch op := verifrt.Choose("op", 6); op {
		case 0: // a transaction is delivered, or delivered again
			id := ids[verifrt.Choose("tx", 2)]
			_, _, err := repo.Add(ctx, id, verifrt.Choose("trusted", 2) == 1, verifrt.Choose("safe", 2) == 1, -1)
			verifrt.Assert(err == nil, "C11.api.add-ok")
		case 1: // a conflict is seen
			_, err := repo.MarkUnsafe(ctx, ids[verifrt.Choose("tx", 2)])
			verifrt.Assert(err == nil, "C11.api.mark-unsafe-ok")
		case 2: // the trusted peer vouches
			verifrt.Assert(repo.MarkTrusted(ctx, ids[verifrt.Choose("tx", 2)]) == nil, "C11.api.mark-trusted-ok")
		case 3: // the delay checker
			_, err := repo.GetNewSafe(ctx, pool, time.Unix(0, verifrt.NowNanos()).Add(-time.Second))
			verifrt.Assert(err == nil, "C11.api.get-new-safe-ok")
		case 4: // confirmed or cancelled
			_, err := repo.Remove(ctx, ids[verifrt.Choose("tx", 2)], -1)
			verifrt.Assert(err == nil, "C11.api.remove-ok")
		case 5: // the save after a block
			verifrt.Assert(repo.Save(ctx) == nil, "C11.api.save-ok")
		}
	}
	// clean stop
	err := repo.Save(ctx)
	verifrt.Assert(err == nil, "C11.api.save-ok")
	fresh := NewTxRepository(store)
	err = fresh.Load(ctx)
	verifrt.Sig("Load", "err")
	verifrt.Assert(err == nil, "C11.api.load-ok")
	verifrt.Sig("Load", "count")
	verifrt.Assert(len(fresh.unconfirmed) == len(repo.unconfirmed), "C11.api.same-set")
	for _, id := range ids {
		want, tracked := repo.unconfirmed[id]
		got, ok := fresh.unconfirmed[id]
		verifrt.Sig("Load", "member")
		verifrt.Assert(ok == tracked, "C11.api.same-set")
		if !ok || !tracked {
			continue
		}
		verifrt.Sig("Load", "flags")
		verifrt.Assert(got.safe == want.safe && got.unsafe == want.unsafe && got.trusted == want.trusted, "C11.api.flags-survive-whichever-call-set-them")
		verifrt.Sig("Load", "time")
		verifrt.Assert(got.time.UnixNano()/1_000_000 == want.time.UnixNano()/1_000_000, "C11.api.first-seen-time-at-millisecond-precision")
		verifrt.Reach("C11.api.entry-compared")
	}
	verifrt.Reach("C11.api.done")
}
