//verif:pkg internal/storage
//verif:kit memstore
package storage

// C11 — the unconfirmed-transaction record survives save + load.

import (
	"context"
	"time"

	"github.com/tokenized/pkg/bitcoin"

	"github.com/tokenized/spynode/internal/verifrt"
)

func VerifHarness_C11_record() {
	ctx := context.Background()
	maxN := 2
	if verifrt.Thorough() {
		maxN = 3
	}
	store := newVkStore()
	repo := NewTxRepository(store)
	n := verifrt.Choose("entries", maxN+1)
	type want struct {
		id                    bitcoin.Hash32
		safe, unsafe, trusted bool
		ms                    int64
	}
	var ws []want
	for i := 0; i < n; i++ {
		var id bitcoin.Hash32
		id[0], id[1] = 0x11, byte(i+1)
		w := want{id: id, safe: verifrt.Bool("safe"), unsafe: verifrt.Bool("unsafe"), trusted: verifrt.Bool("trusted")}
		// first-seen time: any instant of the next ~60 years at nanosecond granularity
		// (the third entry of the thorough tier has a fixed instant: three symbolic divisions by
		// 10^6 in one query do not come back from any installed solver within the time-out)
		ms, sub := int64(1_700_000_000_123), int64(456_789)
		if i < 2 {
			ms = verifrt.I64("seen.ms")
			sub = verifrt.I64("seen.sub-ms-ns")
			verifrt.Assume(verifrt.And(ms >= 0, ms < 4_000_000_000_000))
			verifrt.Assume(verifrt.And(sub >= 0, sub < 1_000_000))
		}
		w.ms = ms
		repo.unconfirmed[id] = &unconfirmedTx{time: time.Unix(0, ms*1_000_000+sub), safe: w.safe, unsafe: w.unsafe, trusted: w.trusted}
		ws = append(ws, w)
	}
	err := repo.Save(ctx)
	verifrt.Assert(err == nil, "C11.record.save-ok")
	fresh := NewTxRepository(store)
	err = fresh.Load(ctx)
	verifrt.Sig("Load", "err")
	verifrt.Assert(err == nil, "C11.record.load-ok")
	verifrt.Sig("Load", "count")
	verifrt.Assert(len(fresh.unconfirmed) == n, "C11.record.same-set")
	for _, w := range ws {
		got, ok := fresh.unconfirmed[w.id]
		verifrt.Sig("Load", "member")
		verifrt.Assert(ok, "C11.record.same-set")
		if !ok {
			continue
		}
		verifrt.Sig("Load", "flags")
		verifrt.Assert(verifrt.And(verifrt.And(got.safe == w.safe, got.unsafe == w.unsafe), got.trusted == w.trusted), "C11.record.flags-survive")
		verifrt.Sig("Load", "time")
		verifrt.Assert(got.time.UnixNano() == w.ms*1_000_000, "C11.record.first-seen-time-at-millisecond-precision")
	}
	verifrt.Reach("C11.record.done")
}
