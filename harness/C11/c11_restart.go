//verif:pkg internal/spynode
//verif:kit memstore nodekit interleave
package spynode

// C11 — transaction tracking across a clean restart.

import (
	"context"
	"time"

	"github.com/tokenized/pkg/wire"
	"github.com/tokenized/spynode/internal/handlers"

	"github.com/tokenized/spynode/internal/verifrt"
)

func c11DelayCheck(ctx context.Context, node *Node) {
	sleeps := 0
	verifrt.OnSleep(func(d time.Duration) {
		sleeps++
		if sleeps >= 2 {
			node.lock.Lock()
			node.stopping = true
			node.lock.Unlock()
		}
	})
	node.checkTxDelays(ctx)
	verifrt.OnSleep(nil)
	node.lock.Lock()
	node.stopping = false
	node.lock.Unlock()
}

// c11Restart is the clean stop of Node.Run (saves in the order node.go uses)
// followed by a new Node loaded from the same storage.
func c11Restart(ctx context.Context, k *vkNode) (*vkNode, error) {
	k.node.blocks.Save(ctx)
	k.node.txs.Save(ctx)
	k.node.peers.Save(ctx)
	k.node.state.Reset()
	return vkNewNode(ctx, k.store)
}

func VerifHarness_C11_restart() {
	ctx := context.Background()
	k, err := vkNewNode(ctx, nil)
	verifrt.Assert(err == nil, "C11.kit.node-loads")
	k.node.state.SetInSync()
	k.node.config.SafeTxDelay = 1000

	t := vkTx(80, []int{0}, true)
	rival := vkTx(81, []int{0}, true)
	tid := *t.TxHash()

	// before the restart
	// the body comes from an untrusted peer, from the trusted peer, or from an untrusted peer after
	// the trusted peer announced the txid (its inventory handler records the request as trusted):
	// in the last two cases the trusted peer vouches for it
	// ... or the trusted peer vouches after the untrusted body was processed: by announcing the
	// txid (its inventory handler, through the node's message dispatch) or by sending the body too
	// ... or while the untrusted body is being processed (interleaving point inside
	// processUnconfirmedTx: recorded in the mempool, not yet in the transaction repository)
	source := verifrt.Choose("t.source", 6)
	if source == 5 {
		vkInterleave = func(point string) {
			inv := wire.NewMsgInv()
			inv.AddInvVect(wire.NewInvVect(wire.InvTypeTx, &tid))
			verifrt.Assert(k.node.handleMessage(ctx, inv) == nil, "C11.before.trusted-inv-handled")
			verifrt.Reach("C11.before.vouched-while-the-body-is-processed")
		}
	}
	trusted := source != 0
	if source == 2 {
		k.node.memPool.AddRequest(ctx, tid, true)
		verifrt.Reach("C11.before.announced-by-trusted-body-from-untrusted")
	}
	perr := k.node.processUnconfirmedTx(ctx, handlers.TxData{Msg: t, Trusted: source == 1, ConfirmedHeight: -1})
	vkInterleave = nil
	if source == 3 {
		inv := wire.NewMsgInv()
		inv.AddInvVect(wire.NewInvVect(wire.InvTypeTx, &tid))
		verifrt.Assert(k.node.handleMessage(ctx, inv) == nil, "C11.before.trusted-inv-handled")
		verifrt.Reach("C11.before.vouched-after-the-body")
	}
	if source == 4 {
		verr := k.node.processUnconfirmedTx(ctx, handlers.TxData{Msg: t, Trusted: true, ConfirmedHeight: -1})
		verifrt.Assert(verr == nil, "C11.before.processed")
	}
	verifrt.Assert(perr == nil, "C11.before.processed")
	verifrt.Assert(len(k.rec.of("tx", tid)) == 1, "C11.before.delivered")
	sent := k.rec.of("tx", tid)[0].tx
	conflictBefore := verifrt.Choose("conflict-before", 2) == 1
	if conflictBefore {
		perr = k.node.processUnconfirmedTx(ctx, handlers.TxData{Msg: rival, Trusted: true, ConfirmedHeight: -1})
		verifrt.Assert(perr == nil, "C11.before.processed")
	}
	safeBefore := false
	if verifrt.Choose("delay-check-before", 2) == 1 {
		verifrt.Advance(3 * time.Second)
		c11DelayCheck(ctx, k.node)
		for _, e := range k.rec.of("update", tid) {
			if e.state.Safe {
				safeBefore = true
			}
		}
	}
	// blocks before the restart: none; one without t (the unconfirmed set is finalised and saved
	// non-empty); one confirming t; or both in that order (the saved set then drains to empty)
	blocksBefore := verifrt.Choose("blocks-before", 4)
	confirmedBefore := false
	height := 0
	if blocksBefore == 1 || blocksBefore == 3 {
		height++
		berr := k.node.ProcessBlock(ctx, vkBlock(*k.node.blocks.LastHash(), height, nil))
		verifrt.Sig("before", "block")
		verifrt.Assert(berr == nil, "C11.before.block-processed")
	}
	if blocksBefore >= 2 {
		height++
		berr := k.node.ProcessBlock(ctx, vkBlock(*k.node.blocks.LastHash(), height, []*wire.MsgTx{t}))
		verifrt.Sig("before", "block")
		verifrt.Assert(berr == nil, "C11.before.block-processed")
		confirmedBefore = true
		verifrt.Reach("C11.before.confirmed")
	}
	unsafeBefore := false
	for _, e := range k.rec.events {
		if e.txid == tid && e.state.UnSafe {
			unsafeBefore = true
		}
	}

	// clean restart at a quiescent point
	k2, rerr := c11Restart(ctx, k)
	verifrt.Sig("restart", "load")
	verifrt.Assert(rerr == nil, "C11.restart.loads")
	if rerr != nil {
		return
	}
	k2.node.state.SetInSync()
	k2.node.config.SafeTxDelay = 1000
	verifrt.Reach("C11.restarted")

	// the stored copy can be fetched back and equals what was sent
	got, gerr := k2.node.GetTx(ctx, tid)
	verifrt.Sig("GetTx", "stored-copy")
	verifrt.Assert(gerr == nil && got != nil && *got.TxHash() == tid && got.LockTime == sent.Tx.LockTime && len(got.TxOut) == len(sent.Tx.TxOut), "C11.stored-copy.equals-what-was-delivered")

	// a transaction confirmed before the restart is not tracked as unconfirmed after it
	unconf, uerr := k2.node.txs.GetUnconfirmed(ctx) // takes the repository lock
	k2.node.txs.ReleaseUnconfirmed(ctx)
	verifrt.Assert(uerr == nil, "C11.restart.unconfirmed-readable")
	tracked := false
	for _, id := range unconf {
		if id == tid {
			tracked = true
		}
	}
	verifrt.Sig("restart", "tracked")
	verifrt.Assert(tracked == !confirmedBefore, "C11.restart.unconfirmed-set-is-exactly-what-it-was")

	// after the restart
	after := verifrt.Choose("after", 5)
	if confirmedBefore {
		verifrt.Assume(after != 1 && after != 3 && after != 4)
	}
	if conflictBefore {
		verifrt.Assume(after != 3 && after != 4)
	}
	switch after {
	case 3: // a double spend of t arrives unconfirmed: t is still tracked for double spends
		perr = k2.node.processUnconfirmedTx(ctx, handlers.TxData{Msg: rival, Trusted: true, ConfirmedHeight: -1})
		verifrt.Assert(perr == nil, "C11.after.processed")
		rivalNew := k2.rec.of("tx", *rival.TxHash())
		verifrt.Sig("after", "rival")
		verifrt.Assert(len(rivalNew) == 1 && rivalNew[0].state.UnSafe && !rivalNew[0].state.Safe, "C11.after.double-spend-of-a-tracked-tx-is-reported-unsafe")
		flagged := false
		for _, e := range k2.rec.of("update", tid) {
			if e.state.UnSafe && !e.state.Safe {
				flagged = true
			}
		}
		verifrt.Sig("after", "double-spent")
		verifrt.Assert(flagged, "C11.after.tracked-tx-is-reported-unsafe-when-double-spent")
		verifrt.Reach("C11.after.double-spent")
	case 4: // a double spend of t confirms: t is cancelled
		blk := vkBlock(*k2.node.blocks.LastHash(), height+1, []*wire.MsgTx{rival})
		berr := k2.node.ProcessBlock(ctx, blk)
		verifrt.Sig("after", "block")
		verifrt.Assert(berr == nil, "C11.after.block-processed")
		cancelled := false
		for _, e := range k2.rec.of("update", tid) {
			if e.state.Cancelled && e.state.UnSafe && !e.state.Safe {
				cancelled = true
			}
		}
		verifrt.Sig("after", "cancelled")
		verifrt.Assert(cancelled, "C11.after.tracked-tx-is-cancelled-when-a-double-spend-confirms")
		verifrt.Reach("C11.after.cancelled")
	case 0: // re-announcement by a peer
		perr = k2.node.processUnconfirmedTx(ctx, handlers.TxData{Msg: t, Trusted: verifrt.Choose("after.trusted", 2) == 1, ConfirmedHeight: -1})
		verifrt.Assert(perr == nil, "C11.after.processed")
		verifrt.Sig("after", "redelivered")
		verifrt.Assert(len(k2.rec.of("tx", tid)) == 0, "C11.after.re-announcement-is-not-delivered-as-new")
		verifrt.Reach("C11.after.reannounced")
	case 1: // confirmation
		blk := vkBlock(*k2.node.blocks.LastHash(), height+1, []*wire.MsgTx{t})
		berr := k2.node.ProcessBlock(ctx, blk)
		verifrt.Sig("after", "block")
		verifrt.Assert(berr == nil, "C11.after.block-processed")
		verifrt.Sig("after", "confirmation-as-new")
		verifrt.Assert(len(k2.rec.of("tx", tid)) == 0, "C11.after.confirmation-is-not-a-new-transaction")
		ups := k2.rec.of("update", tid)
		verifrt.Sig("after", "confirmation-update")
		verifrt.Assert(len(ups) == 1 && ups[0].hasProof, "C11.after.confirmation-is-a-state-update-with-proof")
		if len(ups) == 1 && unsafeBefore {
			verifrt.Sig("after", "unsafe-forgotten")
			verifrt.Assert(!ups[0].state.Safe, "C11.after.unsafe-flag-survives")
		}
		verifrt.Reach("C11.after.confirmed")
	case 2: // the delay checker runs
		verifrt.Advance(3 * time.Second)
		c11DelayCheck(ctx, k2.node)
		safeAfter := false
		for _, e := range k2.rec.of("update", tid) {
			if e.state.Safe {
				safeAfter = true
			}
		}
		if confirmedBefore {
			verifrt.Sig("after", "confirmed-tracked")
			verifrt.Assert(len(k2.rec.of("update", tid)) == 0, "C11.after.confirmed-tx-gets-no-unconfirmed-updates")
		}
		if safeBefore {
			verifrt.Sig("after", "safe-twice")
			verifrt.Assert(!safeAfter, "C11.after.safe-is-not-reported-again")
			verifrt.Reach("C11.after.safe-once")
		}
		if unsafeBefore {
			verifrt.Sig("after", "safe-after-unsafe")
			verifrt.Assert(!safeAfter, "C11.after.unsafe-flag-survives")
		}
		if !trusted && !safeBefore {
			// nobody vouched for it before the restart, and the restart does not vouch either
			verifrt.Sig("after", "vouched-by-the-restart")
			verifrt.Assert(!safeAfter, "C11.after.untrusted-tx-is-not-made-trusted-by-the-restart")
		}
		if trusted && !conflictBefore && !safeBefore && !confirmedBefore {
			verifrt.Sig("after", "safe-lost")
			verifrt.Assert(safeAfter, "C11.after.trusted-flag-and-first-seen-time-survive")
			verifrt.Reach("C11.after.safe-after-restart")
		}
	}
	verifrt.Reach("C11.restart.done")
}
