//verif:pkg internal/spynode
//verif:kit memstore nodekit
package spynode

// C05 — node level: both members of a conflicting pair of unconfirmed
// transactions are reported unsafe and never safe afterwards; disjoint
// transactions are never flagged against each other.

import (
	"context"
	"time"

	"github.com/tokenized/pkg/bitcoin"
	"github.com/tokenized/pkg/wire"
	"github.com/tokenized/spynode/internal/handlers"

	"github.com/tokenized/spynode/internal/verifrt"
)

func c05DelayCheck(ctx context.Context, node *Node) {
	sleeps := 0
	verifrt.OnSleep(func(d time.Duration) {
		sleeps++
		if sleeps >= 2 {
			node.lock.Lock()
			node.stopping = true
			node.lock.Unlock()
		}
	})
	node.checkTxDelays(ctx)
	verifrt.OnSleep(nil)
	node.lock.Lock()
	node.stopping = false
	node.lock.Unlock()
}

func VerifHarness_C05_node() {
	ctx := context.Background()
	k, err := vkNewNode(ctx, nil)
	verifrt.Assert(err == nil, "C05.kit.node-loads")
	node, rec := k.node, k.rec
	node.state.SetInSync()
	node.config.SafeTxDelay = 1000
	subsets := [][]int{{0}, {1}, {0, 1}, {1, 2}, {2}}
	nTx := 2
	if verifrt.Thorough() {
		// three transactions over four input sets: swapping the names of outpoints 0 and 2 maps a
		// combination with {2} onto one without it, except those holding {0} and {2} together
		// (left to the two-transaction tier); with all five the tier ran for an hour and a half
		nTx = 3
		subsets = subsets[:4]
	}
	type ent struct {
		tx     *wire.MsgTx
		id     bitcoin.Hash32
		spends []int
		rel    bool
		seen   bool
	}
	var es []*ent
	for i := 0; i < nTx; i++ {
		sp := subsets[verifrt.Choose("tx.inputs", len(subsets))]
		rel := verifrt.Choose("tx.relevant", 2) == 1
		tx := vkTx(50+i, sp, rel)
		es = append(es, &ent{tx: tx, id: *tx.TxHash(), spends: sp, rel: rel})
	}
	shares := func(a, b *ent) bool {
		for _, x := range a.spends {
			for _, y := range b.spends {
				if x == y {
					return true
				}
			}
		}
		return false
	}
	// arrivals in index order, from an untrusted peer, the trusted peer or submitted locally (which
	// enters already marked safe, as Node.HandleTx queues it); the delay checker may run after each
	for _, e := range es {
		src := verifrt.Choose("tx.source", 3) // 0 untrusted, 1 trusted, 2 local
		perr := node.processUnconfirmedTx(ctx, handlers.TxData{Msg: e.tx, Trusted: src >= 1, Safe: src == 2, ConfirmedHeight: -1})
		verifrt.Sig("arrival", "err")
		verifrt.Assert(perr == nil, "C05.node.processed")
		e.seen = true
		if verifrt.Choose("delay-check", 2) == 1 {
			verifrt.Advance(3 * time.Second)
			c05DelayCheck(ctx, node)
		}
	}
	// one of them is then confirmed in a block (or none)
	if c := verifrt.Choose("confirm", nTx+1); c > 0 {
		blk := vkBlock(*node.blocks.LastHash(), 1, []*wire.MsgTx{es[c-1].tx})
		var berr error
		panicked, what := verifrt.Catch(func() { berr = node.ProcessBlock(ctx, blk) })
		verifrt.Note("confirming tx %d: panic=%v %s err=%v", c-1, panicked, what, berr)
		verifrt.Sig("confirm", "err")
		verifrt.Assert(!panicked && berr == nil, "C05.node.confirmation-of-a-conflicting-tx-is-processed-normally")
		verifrt.Sig("confirm", "height")
		verifrt.Assert(node.blocks.LastHeight() == 1, "C05.node.chain-advances")
		// an irrelevant transaction is never delivered, confirmed or not
		for _, e := range es {
			if !e.rel {
				verifrt.Sig("confirm", "irrelevant")
				verifrt.Assert(len(rec.of("tx", e.id)) == 0 && len(rec.of("update", e.id)) == 0, "C05.node.irrelevant-transactions-are-never-reported")
			}
		}
		verifrt.Reach("C05.node.confirmed")
	}
	for i, e := range es {
		if !e.rel {
			continue
		}
		conflicted := false
		for j, o := range es {
			if i != j && shares(e, o) {
				conflicted = true
			}
		}
		unsafeSeen := false
		for _, ev := range rec.events {
			if ev.txid != e.id || (ev.kind != "tx" && ev.kind != "update") {
				continue
			}
			if ev.state.UnSafe {
				unsafeSeen = true
			}
			if unsafeSeen {
				verifrt.Sig("flags", "safe-after-unsafe")
				verifrt.Assert(!ev.state.Safe, "C05.node.never-safe-after-unsafe")
			}
			if !conflicted {
				verifrt.Sig("flags", "spurious")
				verifrt.Assert(!ev.state.UnSafe, "C05.node.disjoint-transactions-are-not-flagged")
			}
		}
		if conflicted {
			verifrt.Sig("flags", "missing")
			verifrt.Assert(unsafeSeen, "C05.node.each-relevant-member-of-a-conflict-is-reported-unsafe")
			verifrt.Reach("C05.node.conflict")
		}
	}
	verifrt.Reach("C05.node.done")
}

// VerifHarness_C05_alone: a transaction nobody double spends, in every way it can reach the handlers
// through a block - first seen in the block, or seen unconfirmed before (tracked, or filtered out
// because the client subscribed later) - with the node in sync or catching up: it is never flagged
// unsafe, there is nothing to flag it against.
func VerifHarness_C05_alone() {
	ctx := context.Background()
	k, err := vkNewNode(ctx, nil)
	verifrt.Assert(err == nil, "C05.kit.node-loads")
	node, rec := k.node, k.rec
	node.state.SetInSync()
	t := vkTx(45, []int{11}, true)
	txid := *t.TxHash()
	seen := verifrt.Choose("seen-unconfirmed", 3) // 0 no, 1 yes and delivered, 2 yes but before the subscription
	switch seen {
	case 1:
		verifrt.Assert(node.processUnconfirmedTx(ctx, handlers.TxData{Msg: t, Trusted: true, ConfirmedHeight: -1}) == nil, "C05.node.processed")
	case 2:
		node.UnsubscribePushDatas(ctx, [][]byte{vkSubscribed()})
		verifrt.Assert(node.processUnconfirmedTx(ctx, handlers.TxData{Msg: t, Trusted: true, ConfirmedHeight: -1}) == nil, "C05.node.processed")
		node.SubscribePushDatas(ctx, [][]byte{vkSubscribed()})
	}
	if verifrt.Choose("catching-up-when-the-block-arrives", 2) == 1 {
		node.state.ClearInSync() // e.g. after a reconnection: the mempool is still there
		verifrt.Reach("C05.alone.not-in-sync")
	}
	block := vkBlock(*node.blocks.LastHash(), 1, []*wire.MsgTx{vkTx(46, []int{12}, false), t})
	verifrt.Assert(node.ProcessBlock(ctx, block) == nil, "C05.node.block-processed")
	n := 0
	for _, e := range rec.events {
		if e.txid != txid || (e.kind != "tx" && e.kind != "update") {
			continue
		}
		n++
		verifrt.Sig("alone", seen, "flagged")
		verifrt.Assert(!e.state.UnSafe && !e.state.Cancelled, "C05.alone.a-transaction-without-a-rival-is-never-flagged")
	}
	verifrt.Assert(n >= 1, "C05.alone.delivered")
	verifrt.Reach("C05.alone.done")
}
