//verif:pkg internal/state
package state

// C05 — mempool component: index exactness and conflict reporting, compared
// against a reference set model after every operation.

import (
	"context"

	"github.com/tokenized/pkg/bitcoin"
	"github.com/tokenized/pkg/wire"

	"github.com/tokenized/spynode/internal/verifrt"
)

const c05Outpoints = 3

var c05Subsets = [][]int{{0}, {1}, {2}, {0, 1}, {0, 2}, {1, 2}, {1, 0}, {2, 1}}

func c05Outpoint(k int) wire.OutPoint {
	var h bitcoin.Hash32
	h[0] = 0xa0
	h[5] = byte(k / 2) // outpoints 0 and 1 share a parent txid, 2 has another
	return wire.OutPoint{Hash: h, Index: uint32(k % 2)}
}

// c05Tx builds a real transaction spending the given outpoints; id makes the
// txid unique.
func c05Tx(id int, subset []int) *wire.MsgTx {
	tx := wire.NewMsgTx(1)
	for _, k := range subset {
		op := c05Outpoint(k)
		tx.AddTxIn(wire.NewTxIn(&op, nil))
	}
	tx.AddTxOut(wire.NewTxOut(uint64(1000+id), nil))
	tx.LockTime = uint32(id)
	return tx
}

type c05Ref struct {
	txids  []bitcoin.Hash32 // pool members in insertion order
	spends map[bitcoin.Hash32][]int
}

func (r *c05Ref) has(txid bitcoin.Hash32) bool {
	_, ok := r.spends[txid]
	return ok
}

func (r *c05Ref) remove(txid bitcoin.Hash32) {
	delete(r.spends, txid)
	for i, t := range r.txids {
		if t == txid {
			r.txids = append(r.txids[:i:i], r.txids[i+1:]...)
			break
		}
	}
}

// spenders returns pool members (other than self) sharing an outpoint with subset.
func (r *c05Ref) spenders(subset []int, self *bitcoin.Hash32) []bitcoin.Hash32 {
	var out []bitcoin.Hash32
	for _, t := range r.txids {
		if self != nil && t == *self {
			continue
		}
		share := false
		for _, a := range r.spends[t] {
			for _, b := range subset {
				if a == b {
					share = true
				}
			}
		}
		if share {
			out = append(out, t)
		}
	}
	return out
}

func c05SameSet(got, want []bitcoin.Hash32) bool {
	for _, g := range got {
		found := false
		for _, w := range want {
			if g == w {
				found = true
			}
		}
		if !found {
			return false
		}
	}
	for _, w := range want {
		found := false
		for _, g := range got {
			if g == w {
				found = true
			}
		}
		if !found {
			return false
		}
	}
	return true
}

func c05NoDup(l []bitcoin.Hash32) bool {
	for i := range l {
		for j := i + 1; j < len(l); j++ {
			if l[i] == l[j] {
				return false
			}
		}
	}
	return true
}

// c05IndexExact: for every outpoint, the registered spender list equals the
// set of pool members spending it.
func c05IndexExact(pool *MemPool, ref *c05Ref, when string) {
	for k := 0; k < c05Outpoints; k++ {
		op := c05Outpoint(k)
		var want []bitcoin.Hash32
		for _, t := range ref.txids {
			for _, a := range ref.spends[t] {
				if a == k {
					want = append(want, t)
				}
			}
		}
		got := pool.inputs[*op.OutpointHash()]
		verifrt.Sig(when, "index")
		verifrt.Assert(c05SameSet(got, want), "C05.index.spenders-exact")
		verifrt.Sig(when, "index-dup")
		verifrt.Assert(c05NoDup(got), "C05.index.no-duplicate-spender")
	}
	for _, t := range ref.txids {
		t := t
		verifrt.Sig(when, "exists")
		verifrt.Assert(pool.TransactionExists(&t), "C05.pool.member-exists")
	}
	// no stray outpoint entries
	verifrt.Sig(when, "stray")
	n := 0
	for k := 0; k < c05Outpoints; k++ {
		op := c05Outpoint(k)
		if _, ok := pool.inputs[*op.OutpointHash()]; ok {
			n++
		}
	}
	verifrt.Assert(len(pool.inputs) == n, "C05.index.no-stray-entries")
}

func VerifHarness_C05_pool() {
	ctx := context.Background()
	maxTxs, maxOps := 3, 4
	if verifrt.Thorough() {
		maxTxs, maxOps = 4, 5
	}
	pool := NewMemPool()
	ref := &c05Ref{spends: map[bitcoin.Hash32][]int{}}
	var txs []*wire.MsgTx
	var subsets [][]int
	steps := []string{"s0", "s1", "s2", "s3", "s4", "s5"}
	for s := 0; s < maxOps; s++ {
		nAlt := 3
		if len(txs) == 0 {
			nAlt = 1 // first operation adds a transaction
		}
		op := verifrt.Choose(steps[s]+".op", nAlt)
		switch op {
		case 0: // add a new transaction, or re-add an existing one
			var tx *wire.MsgTx
			var subset []int
			reAdd := false
			if len(txs) >= maxTxs {
				j := verifrt.Choose(steps[s]+".which", len(txs))
				tx, subset, reAdd = txs[j], subsets[j], true
			} else {
				nSub := len(c05Subsets)
				if len(txs) == 0 {
					nSub = 4 // by symmetry of outpoint naming: {0},{1}→ same; keep {0},{1},{2},{0,1}
				}
				subset = c05Subsets[verifrt.Choose(steps[s]+".inputs", nSub)]
				tx = c05Tx(len(txs), subset)
				txs = append(txs, tx)
				subsets = append(subsets, subset)
			}
			_ = reAdd
			txid := *tx.TxHash()
			already := ref.has(txid)
			want := ref.spenders(subset, &txid)
			conflicts, _, added := pool.AddTransaction(ctx, tx, false)
			verifrt.Sig("AddTransaction", "added")
			verifrt.Assert(added == !already, "C05.add.added-iff-new")
			if !already {
				verifrt.Sig("AddTransaction", "conflicts")
				verifrt.Assert(c05SameSet(conflicts, want), "C05.add.conflicts-complete-and-only-sharing")
				verifrt.Sig("AddTransaction", "conflicts-dup")
				verifrt.Assert(c05NoDup(conflicts), "C05.add.conflicts-no-duplicates")
				ref.txids = append(ref.txids, txid)
				ref.spends[txid] = subset
			}
			c05IndexExact(pool, ref, "AddTransaction")
		case 1: // remove (confirmation of that very transaction)
			j := verifrt.Choose(steps[s]+".which", len(txs))
			txid := *txs[j].TxHash()
			was := ref.has(txid)
			ref.remove(txid)
			got := pool.RemoveTransaction(txid)
			verifrt.Sig("RemoveTransaction", "ret")
			verifrt.Assert(got == was, "C05.remove.returns-was-member")
			c05IndexExact(pool, ref, "RemoveTransaction")
		case 2: // a confirmed transaction conflicts with pool members
			subset := c05Subsets[verifrt.Choose(steps[s]+".inputs", len(c05Subsets))]
			probe := c05Tx(100+s, subset)
			want := ref.spenders(subset, nil)
			got := pool.Conflicting(probe)
			verifrt.Sig("Conflicting", "ret")
			verifrt.Assert(c05SameSet(got, want), "C05.conflicting.exactly-the-spenders")
			for _, t := range want {
				ref.remove(t)
			}
			for _, t := range want {
				t := t
				verifrt.Sig("Conflicting", "evicted")
				verifrt.Assert(!pool.TransactionExists(&t), "C05.conflicting.evicts")
			}
			c05IndexExact(pool, ref, "Conflicting")
		}
	}
	verifrt.Reach("C05.pool.done")
}
