//verif:pkg internal/spynode
//verif:kit memstore nodekit synckit worldkit interleave
package spynode

// C12 — untrusted peers cannot alter the chain, vouch for transactions or
// stall syncing.

import (
	"bytes"
	"context"
	"time"

	"github.com/tokenized/pkg/bitcoin"
	"github.com/tokenized/pkg/wire"
	"github.com/tokenized/spynode/internal/handlers"

	"github.com/tokenized/spynode/internal/verifrt"
)

type c12Snap struct {
	height   int
	tip      bitcoin.Hash32
	requests int
	ready    bool
	files    []vkEnt
}

func c12Take(k *vkNode) c12Snap {
	s := c12Snap{height: k.node.blocks.LastHeight(), tip: *k.node.blocks.LastHash(),
		requests: k.node.state.TotalBlockRequestCount(), ready: k.node.state.IsReady()}
	for _, e := range k.store.ents {
		// chain files, per-height tx files and reorg records (tx states and the unconfirmed set may legitimately change)
		if len(e.key) >= 14 && (e.key[:14] == "spynode/blocks" || e.key[:14] == "spynode/reorgs") {
			s.files = append(s.files, vkEnt{e.key, append([]byte(nil), e.data...)})
		}
	}
	return s
}

func c12Same(a, b c12Snap) bool {
	if a.height != b.height || a.tip != b.tip || a.requests != b.requests || a.ready != b.ready || len(a.files) != len(b.files) {
		return false
	}
	for i := range a.files {
		if a.files[i].key != b.files[i].key || string(a.files[i].data) != string(b.files[i].data) {
			return false
		}
	}
	return true
}

// VerifHarness_C12_frame: one untrusted message in the middle of a sync with
// outstanding block requests; nothing of the trusted chain state changes and
// the sync still converges.
func VerifHarness_C12_frame() {
	ctx := context.Background()
	k, err := vkNewNode(ctx, nil)
	verifrt.Assert(err == nil, "C12.kit.node-loads")
	k.node.state.SetVersionReceived()
	k.node.state.MarkConnected()
	tree := vkNewTree(*k.node.blocks.LastHash())
	tree.add("a1", "", nil)
	tree.add("a2", "a1", []*wire.MsgTx{vkTx(1, []int{0}, true)})
	tree.add("a3", "a2", nil)
	tree.add("b2", "a1", nil)
	w := &c01World{ctx: ctx, k: k, tree: tree, heard: map[string]bool{}}
	w.peer = vkNewPeer(tree, "a3")
	// the trusted sync up to outstanding block requests (optionally a1 already processed)
	w.poll()
	w.deliver() // headers a1..a3 -> getdata
	if verifrt.Choose("a1-processed", 2) == 1 {
		w.deliver()
		w.process()
	}
	verified := verifrt.Choose("untrusted.verified", 2) == 1
	u := vkUntrusted(ctx, k, "peer1", verified)
	u.outgoing.Open(100)

	// the untrusted message
	altered := &wire.MsgBlock{Header: tree.blocks["a2"].Header}
	for _, tx := range tree.blocks["a2"].Transactions {
		altered.AddTransaction(tx)
	}
	altered.AddTransaction(vkTx(66, []int{5}, true)) // same header, different body
	var msg wire.Message
	kind := verifrt.Choose("untrusted.message", 12)
	names := []string{"headers-linked", "headers-unknown", "headers-empty", "inv", "tx", "block-requested-authentic", "block-requested-altered-body", "block-unrequested", "block-requested-next-altered", "extmsg-tx", "extmsg-block-altered-body", "tx-spending-unknown-outputs"}
	relevantTx := vkTx(67, []int{4}, true)
	switch kind {
	case 11:
		// a transaction that pays a subscribed address and spends an output nobody knows: the full
		// node behind the output fetcher answers with an error
		k.fetcher.strict = true
		bogus := wire.NewMsgTx(1)
		var nowhere bitcoin.Hash32
		nowhere[0] = 0x77
		bogus.AddTxIn(wire.NewTxIn(wire.NewOutPoint(&nowhere, 0), bitcoin.Script{0x01, 0x01}))
		bogus.AddTxOut(wire.NewTxOut(1, vkRelevantScript()))
		msg = bogus
	case 0:
		msg = tree.headerMsg("a1", "a2")
	case 1:
		msg = tree.headerMsg("b2")
	case 2:
		msg = wire.NewMsgHeaders()
	case 3:
		inv := wire.NewMsgInv()
		h := *relevantTx.TxHash()
		inv.AddInvVect(wire.NewInvVect(wire.InvTypeTx, &h))
		msg = inv
	case 4:
		msg = relevantTx
	case 5:
		msg = tree.blocks["a2"]
	case 6:
		msg = altered
	case 7:
		msg = tree.blocks["b2"]
	case 9: // the same transaction inside the extended-message envelope
		msg = c12Ext(wire.CmdTx, relevantTx)
	case 10:
		msg = c12Ext(wire.CmdBlock, altered)
	case 8:
		// the next block to be processed, with an altered body
		next := "a1"
		if k.node.blocks.LastHeight() >= 1 {
			next = "a2"
		}
		if next == "a2" {
			msg = altered
		} else {
			alt1 := &wire.MsgBlock{Header: tree.blocks["a1"].Header}
			for _, tx := range tree.blocks["a1"].Transactions {
				alt1.AddTransaction(tx)
			}
			alt1.AddTransaction(vkTx(68, []int{6}, true))
			msg = alt1
		}
	}
	before := c12Take(k)
	mark := len(k.rec.events)
	var herr error
	panicked, what := verifrt.Catch(func() { herr = u.handleMessage(ctx, msg) })
	verifrt.Note("untrusted %s (verified=%v): panic=%v %s err=%v", names[kind], verified, panicked, what, herr)
	verifrt.Sig(names[kind], "panic")
	verifrt.Assert(!panicked, "C12.untrusted.no-panic")
	derr := vkDrainTxs(ctx, k)
	verifrt.Sig(names[kind], "processing")
	verifrt.Assert(derr == nil, "C12.untrusted.processing-no-error") // an error there stops the whole node
	if kind == 11 {
		// nothing was delivered, so nothing may be left recorded as delivered
		unconf, _ := k.node.txs.GetUnconfirmed(ctx)
		k.node.txs.ReleaseUnconfirmed(ctx)
		verifrt.Sig(names[kind], "half-recorded")
		verifrt.Assert(len(unconf) == 0 || len(k.rec.events) > mark, "C12.untrusted.undeliverable-tx-is-not-left-half-recorded")
		verifrt.Reach("C12.frame.unknown-outputs")
	}
	after := c12Take(k)
	verifrt.Sig(names[kind], "frame")
	verifrt.Assert(c12Same(before, after), "C12.frame.trusted-chain-state-untouched")
	// nothing reported confirmed or safe on an untrusted peer's word
	for _, e := range k.rec.events[mark:] {
		if e.kind == "tx" || e.kind == "update" {
			verifrt.Sig(names[kind], "vouching")
			verifrt.Assert(!e.state.Safe && !e.hasProof, "C12.untrusted.never-safe-or-confirmed")
			verifrt.Sig(names[kind], "unverified-effect")
			verifrt.Assert(verified, "C12.gate.unverified-peer-has-no-effect")
		}
	}
	if !verified && (kind == 3 || kind == 4 || kind == 9) {
		verifrt.Sig(names[kind], "unverified-effect")
		verifrt.Assert(len(k.rec.events) == mark && len(k.node.unconfTxChannel.Channel) == 0, "C12.gate.unverified-peer-has-no-effect")
	}
	// the block processor may run before the trusted peer's next message arrives
	if verifrt.Choose("process-before-next-trusted-message", 2) == 1 {
		w.process()
		vkChainLinked(ctx, w.k.node, "after-untrusted")
	}
	// the trusted sync still converges
	for r := 0; r < 6; r++ {
		for w.deliver() {
			w.process()
		}
		w.process()
		w.poll()
		if len(w.peer.toNode) == 0 && !w.converged() {
			verifrt.Advance(11 * time.Minute)
			if terr := w.k.node.state.CheckTimeouts(); terr != nil {
				w.reconnect() // Node.Run restarts in place
				verifrt.Reach("C12.timeout.restart")
			}
		}
	}
	vkChainLinked(ctx, w.k.node, "closure")
	verifrt.Note("closure: node height %d tip %s", w.k.node.blocks.LastHeight(), tree.byHash[*w.k.node.blocks.LastHash()])
	verifrt.Sig(names[kind], "stall")
	verifrt.Assert(w.converged(), "C12.no-stall.trusted-sync-still-converges")
	verifrt.Reach("C12.frame.done")
}

// VerifHarness_C12_gate: an untrusted peer is listened to only after linked
// headers whose first one is known and close to the tip.
func VerifHarness_C12_gate() {
	ctx := context.Background()
	k, err := vkNewNode(ctx, nil)
	verifrt.Assert(err == nil, "C12.kit.node-loads")
	node := k.node
	// a stored chain of 12 headers
	prev := *node.blocks.LastHash()
	var hdrs []wire.BlockHeader
	for i := 1; i <= 12; i++ {
		b := vkBlock(prev, i, nil)
		h := b.Header
		node.blocks.Add(ctx, &h)
		hdrs = append(hdrs, h)
		prev = *h.BlockHash()
	}
	u := vkUntrusted(ctx, k, "peer1", false)
	u.outgoing.Open(100)
	first := verifrt.Choose("first-header-height", 14) // 1..12 stored, 13: unknown, 0: none
	linked := verifrt.Choose("linked", 2) == 1
	msg := wire.NewMsgHeaders()
	known := false
	if first >= 1 && first <= 12 {
		known = true
		h := hdrs[first-1]
		msg.AddBlockHeader(&h)
		if first < 12 {
			nxt := hdrs[first]
			if !linked {
				nxt.PrevBlock[0] ^= 0xff
			}
			msg.AddBlockHeader(&nxt)
		}
	} else if first == 13 {
		var unk bitcoin.Hash32
		unk[0] = 0x77
		b := vkBlock(unk, 99, nil)
		h := b.Header
		msg.AddBlockHeader(&h)
	}
	u.handleMessage(ctx, msg)
	got := u.untrustedState.IsReady()
	closeToTip := first >= 12-handlers.UntrustedHeaderDelta-1
	want := known && closeToTip && (linked || first == 12)
	verifrt.Sig("gate", "verified")
	verifrt.Assert(got == want, "C12.gate.verified-iff-known-recent-linked-headers")
	if got {
		verifrt.Reach("C12.gate.verified")
	} else {
		verifrt.Reach("C12.gate.refused")
	}
	verifrt.Assert(node.blocks.LastHeight() == 12, "C12.gate.chain-untouched")
	verifrt.Reach("C12.gate.done")
}

// VerifHarness_C12_novouch: untrusted sources alone never make a transaction safe.
func VerifHarness_C12_novouch() {
	ctx := context.Background()
	k, err := vkNewNode(ctx, nil)
	verifrt.Assert(err == nil, "C12.kit.node-loads")
	node, rec := k.node, k.rec
	node.state.SetInSync()
	node.config.SafeTxDelay = 1000
	u1 := vkUntrusted(ctx, k, "peer1", true)
	u2 := vkUntrusted(ctx, k, "peer2", true)
	u1.outgoing.Open(100)
	u2.outgoing.Open(100)
	u2.untrustedState.SetVersionReceived() // so that its periodic check runs
	t := vkTx(90, []int{0}, true)
	tid := *t.TxHash()
	nEvents := 5
	if verifrt.Thorough() {
		nEvents = 6
	}
	for e := 0; e < nEvents; e++ {
		verifrt.Advance(time.Duration(verifrt.IntRange("delay-ns", 0, 6_000_000_000)))
		switch verifrt.Choose("event", 6) {
		case 5: // the untrusted node's periodic check (re-requests announced transactions)
			u2.check(ctx)
			for len(u2.outgoing.Channel) > 0 {
				<-u2.outgoing.Channel
			}
		case 4: // the body inside the extended-message envelope
			u1.handleMessage(ctx, c12Ext(wire.CmdTx, t))
		case 0:
			u1.handleMessage(ctx, t)
		case 1:
			inv := wire.NewMsgInv()
			h := tid
			inv.AddInvVect(wire.NewInvVect(wire.InvTypeTx, &h))
			u2.handleMessage(ctx, inv)
		case 2:
			u2.handleMessage(ctx, t)
		case 3:
			c07DelayCheckC12(ctx, node)
		}
		vkDrainTxs(ctx, k)
	}
	for _, ev := range rec.events {
		if ev.txid == tid {
			verifrt.Sig("novouch", "safe")
			verifrt.Assert(!ev.state.Safe, "C12.untrusted.never-safe-until-trusted-peer-vouches")
		}
	}
	verifrt.Reach("C12.novouch.done")
}

// c12Ext wraps a message in the extended-message envelope (extmsg).
func c12Ext(cmd string, m wire.Message) *wire.MsgExtended {
	var buf bytes.Buffer
	if err := m.BtcEncode(&buf, 0); err != nil {
		verifrt.Assume(false)
	}
	return &wire.MsgExtended{ExtCommand: cmd, Length: uint64(buf.Len()), Payload: buf.Bytes()}
}

func c07DelayCheckC12(ctx context.Context, node *Node) {
	sleeps := 0
	verifrt.OnSleep(func(d time.Duration) {
		sleeps++
		if sleeps >= 2 {
			node.lock.Lock()
			node.stopping = true
			node.lock.Unlock()
		}
	})
	node.checkTxDelays(ctx)
	verifrt.OnSleep(nil)
	node.lock.Lock()
	node.stopping = false
	node.lock.Unlock()
}

// VerifHarness_C12_insync: the node is in sync when the trusted peer announces a new block; while
// that block's request is outstanding an untrusted peer (verified or not) sends a body with the
// requested header and other transactions - before the trusted body (and is processed before it
// arrives, or not) or after it.  Whatever the order, the node ends on the trusted peer's tip: an
// in-sync node does not poll and has no request left to time out, so nothing else would recover it.
func VerifHarness_C12_insync() {
	ctx := context.Background()
	k, err := vkNewNode(ctx, nil)
	verifrt.Assert(err == nil, "C12.kit.node-loads")
	k.node.state.SetVersionReceived()
	k.node.state.MarkConnected()
	tree := vkNewTree(*k.node.blocks.LastHash())
	tree.add("a1", "", nil)
	tree.add("a2", "a1", nil)
	tree.add("a3", "a2", []*wire.MsgTx{vkTx(1, []int{0}, true)})
	w := &c01World{ctx: ctx, k: k, tree: tree, heard: map[string]bool{}}
	w.peer = vkNewPeer(tree, "a2")
	w.settle(4)
	verifrt.Assert(w.converged() && k.node.state.IsReady(), "C12.insync.settled-in-sync")
	w.peer.setBest("a3")
	w.deliver() // the announcement; the node asks for the body
	verifrt.Assert(k.node.state.TotalBlockRequestCount() == 1, "C12.insync.block-requested")

	u := vkUntrusted(ctx, k, "peer1", verifrt.Choose("untrusted.verified", 2) == 1)
	u.outgoing.Open(100)
	altered := &wire.MsgBlock{Header: tree.blocks["a3"].Header}
	for _, tx := range tree.blocks["a3"].Transactions {
		altered.AddTransaction(tx)
	}
	altered.AddTransaction(vkTx(66, []int{5}, true))
	order := verifrt.Choose("altered-body", 3)
	switch order {
	case 0: // arrives first and is processed before the trusted body arrives
		u.handleMessage(ctx, altered)
		w.process()
		w.deliver()
	case 1: // arrives first, the trusted body follows before the block processor runs
		u.handleMessage(ctx, altered)
		w.deliver()
	case 2: // arrives after the trusted body, before the block processor runs
		w.deliver()
		u.handleMessage(ctx, altered)
	}
	if verifrt.Choose("the-peer-keeps-sending-that-body", 2) == 1 {
		// a persistent peer: the forged body again before every step of the trusted side
		for r := 0; r < 8 && !w.converged(); r++ {
			u.handleMessage(ctx, altered)
			if w.deliver() {
				u.handleMessage(ctx, altered)
			}
			w.process()
			u.handleMessage(ctx, altered)
			w.poll()
		}
		verifrt.Note("while the peer keeps sending: node height %d tip %s", k.node.blocks.LastHeight(), tree.byHash[*k.node.blocks.LastHash()])
		verifrt.Sig("insync", order, "stall-while-the-peer-keeps-sending")
		verifrt.Assert(w.converged(), "C12.no-stall.trusted-sync-converges-while-the-peer-keeps-sending")
		verifrt.Reach("C12.insync.persistent-peer")
	}
	w.settle(5)
	vkChainLinked(ctx, k.node, "closure")
	verifrt.Note("closure: node height %d tip %s ready=%v", k.node.blocks.LastHeight(), tree.byHash[*k.node.blocks.LastHash()], k.node.state.IsReady())
	verifrt.Sig("insync", order, "stall")
	verifrt.Assert(w.converged(), "C12.no-stall.trusted-sync-still-converges")
	for _, e := range k.rec.events {
		if e.kind == "tx" || e.kind == "update" {
			verifrt.Sig("insync", order, "foreign-tx")
			verifrt.Assert(e.txid == *tree.blocks["a3"].Transactions[1].TxHash(), "C12.insync.only-the-real-block's-transactions-delivered")
		}
	}
	verifrt.Reach("C12.insync.done")
}

// VerifHarness_C12_restart: a transaction that only untrusted peers ever delivered, then a clean
// restart of the node (Node.Run's saves, a new node on the same storage), then the safe delay: the
// restart is not a trusted peer, the transaction stays not-safe until the trusted peer vouches.
func VerifHarness_C12_restart() {
	ctx := context.Background()
	k, err := vkNewNode(ctx, nil)
	verifrt.Assert(err == nil, "C12.kit.node-loads")
	k.node.state.SetInSync()
	k.node.config.SafeTxDelay = 1000
	u := vkUntrusted(ctx, k, "peer1", true)
	u.outgoing.Open(100)
	t := vkTx(67, []int{4}, true)
	tid := *t.TxHash()
	verifrt.Assert(u.handleMessage(ctx, t) == nil, "C12.restart.untrusted-tx-handled")
	verifrt.Assert(vkDrainTxs(ctx, k) == nil, "C12.untrusted.processing-no-error")
	verifrt.Assert(len(k.rec.of("tx", tid)) == 1, "C12.restart.delivered")
	if verifrt.Choose("block-before-the-restart", 2) == 1 {
		verifrt.Assert(k.node.ProcessBlock(ctx, vkBlock(*k.node.blocks.LastHash(), 1, nil)) == nil, "C12.restart.block-processed")
	}
	k.node.blocks.Save(ctx)
	k.node.txs.Save(ctx)
	k.node.peers.Save(ctx)
	k2, rerr := vkNewNode(ctx, k.store)
	verifrt.Assert(rerr == nil, "C12.restart.loads")
	if rerr != nil {
		return
	}
	k2.node.state.SetInSync()
	k2.node.config.SafeTxDelay = 1000
	vouch := verifrt.Choose("trusted-peer-vouches-after-the-restart", 2) == 1
	if vouch {
		inv := wire.NewMsgInv()
		inv.AddInvVect(wire.NewInvVect(wire.InvTypeTx, &tid))
		verifrt.Assert(k2.node.handleMessage(ctx, inv) == nil, "C12.restart.trusted-inv-handled")
	}
	verifrt.Advance(3 * time.Second)
	sleeps := 0
	verifrt.OnSleep(func(d time.Duration) {
		sleeps++
		if sleeps >= 2 {
			k2.node.lock.Lock()
			k2.node.stopping = true
			k2.node.lock.Unlock()
		}
	})
	k2.node.checkTxDelays(ctx)
	verifrt.OnSleep(nil)
	safe := false
	for _, e := range k2.rec.of("update", tid) {
		if e.state.Safe {
			safe = true
		}
	}
	verifrt.Sig("restart", "vouched")
	verifrt.Assert(safe == vouch, "C12.restart.safe-only-after-the-trusted-peer-vouched")
	verifrt.Reach("C12.restart.done")
}
