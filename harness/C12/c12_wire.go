//verif:pkg internal/spynode
//verif:kit memstore nodekit synckit worldkit interleave conn
package spynode

// C12 — the bytes an untrusted peer puts on the wire before any handshake.

import (
	"context"
	"encoding/binary"
	"net"

	"github.com/tokenized/pkg/bitcoin"
	"github.com/tokenized/pkg/wire"

	"github.com/tokenized/spynode/internal/verifrt"
)

// VerifHarness_C12_wire: the first message of an untrusted connection is an extended-message
// envelope ("extmsg": inner command and a 64-bit payload length) with a correct checksum and an
// arbitrary length field, then the peer hangs up.  The real read loop of the untrusted connection
// (UntrustedNode.monitorIncoming, wire.ReadMessageN of the dependency) must end that connection -
// not the process.
func VerifHarness_C12_wire() {
	ctx := context.Background()
	k, err := vkNewNode(ctx, nil)
	verifrt.Assert(err == nil, "C12.kit.node-loads")
	u := vkUntrusted(ctx, k, "peer1", false)
	u.outgoing.Open(100)
	pipe := newVkPipe()
	u.connection = net.Conn(pipe)

	ext := make([]byte, 20)
	copy(ext, []byte([]string{"tx", "block", "headers"}[verifrt.Choose("inner-command", 3)]))
	copy(ext[12:], verifrt.Bytes("ext.length", 8))
	sum := bitcoin.DoubleSha256(ext)
	hdr := make([]byte, 24)
	binary.LittleEndian.PutUint32(hdr[0:], uint32(wire.BitcoinNet(u.config.Net)))
	copy(hdr[4:], []byte(wire.CmdExtended))
	binary.LittleEndian.PutUint32(hdr[16:], uint32(len(ext)))
	copy(hdr[20:], sum[0:4])
	pipe.feed(append(hdr, ext...))
	pipe.hangUp()

	panicked, what := verifrt.Catch(func() { u.monitorIncoming(ctx) })
	verifrt.Note("extmsg with length field %x: panic=%v %s", ext[12:], panicked, what)
	verifrt.Sig("wire", verifrt.PanicSite(), what)
	verifrt.Assert(!panicked, "C12.untrusted.wire-bytes.no-panic")
	verifrt.Reach("C12.wire.done")
}
