//verif:pkg internal/spynode
//verif:kit memstore nodekit synckit worldkit interleave conn
package spynode

// C12 — an untrusted peer that stops reading its socket.

import (
	"context"
	"errors"
	"net"
	"sync"
	"time"

	"github.com/tokenized/pkg/wire"

	"github.com/tokenized/spynode/internal/verifrt"
)

// c12StallConn is a connection whose peer has stopped reading: the socket buffer is full, so a
// write blocks - until its write deadline, if one was set - and reads see nothing.
type c12StallConn struct {
	mu       sync.Mutex
	deadline time.Time
	gone     chan struct{}
	closed   bool
	// slow: the peer does read, one message every nine seconds (just inside any write deadline)
	slow bool
}

type c12TimeoutError struct{}

func (c12TimeoutError) Error() string   { return "i/o timeout" }
func (c12TimeoutError) Timeout() bool   { return true }
func (c12TimeoutError) Temporary() bool { return true }

func (c *c12StallConn) Write(b []byte) (int, error) {
	c.mu.Lock()
	d, closed := c.deadline, c.closed
	c.mu.Unlock()
	if closed {
		return 0, errors.New("use of closed connection")
	}
	if c.slow {
		select {
		case <-time.After(9 * time.Second):
			return len(b), nil
		case <-c.gone:
			return 0, errors.New("use of closed connection")
		}
	}
	if d.IsZero() {
		<-c.gone
		return 0, errors.New("use of closed connection")
	}
	select {
	case <-time.After(d.Sub(time.Now())):
		return 0, c12TimeoutError{}
	case <-c.gone:
		return 0, errors.New("use of closed connection")
	}
}
func (c *c12StallConn) Read(b []byte) (int, error) {
	<-c.gone
	return 0, errors.New("use of closed connection")
}
func (c *c12StallConn) Close() error {
	c.mu.Lock()
	if !c.closed {
		c.closed = true
		close(c.gone)
	}
	c.mu.Unlock()
	return nil
}
func (c *c12StallConn) LocalAddr() net.Addr  { return &net.TCPAddr{} }
func (c *c12StallConn) RemoteAddr() net.Addr { return &net.TCPAddr{} }
func (c *c12StallConn) SetDeadline(t time.Time) error {
	c.SetWriteDeadline(t)
	return nil
}
func (c *c12StallConn) SetReadDeadline(t time.Time) error { return nil }
func (c *c12StallConn) SetWriteDeadline(t time.Time) error {
	c.mu.Lock()
	c.deadline = t
	c.mu.Unlock()
	return nil
}

// VerifHarness_C12_stalled_peer: a verified untrusted peer announces a transaction and then stops
// reading its socket while it keeps sending pings.  Its send thread is stuck in a write, the queue
// of messages for it fills up, its read thread and its periodic check (which holds the peer's
// tracker while it queues a re-request) get stuck behind that.  The trusted side must not: the next
// block of the trusted chain is processed within a bounded time.
func VerifHarness_C12_stalled_peer() {
	verifrt.Goroutines()
	ctx := context.Background()
	k, err := vkNewNode(ctx, nil)
	verifrt.Assert(err == nil, "C12.kit.node-loads")
	k.node.state.SetInSync()
	u := vkUntrusted(ctx, k, "peer1", true)
	u.outgoing.Open(3) // 100 in UntrustedNode.Run: the same code path, fewer pings needed
	conn := &c12StallConn{gone: make(chan struct{}), slow: verifrt.Choose("the-peer-reads-one-message-every-nine-seconds", 2) == 1}
	u.connection = net.Conn(conn)
	k.node.untrustedLock.Lock()
	k.node.untrustedNodes = append(k.node.untrustedNodes, u)
	k.node.untrustedLock.Unlock()
	go u.sendOutgoing(ctx) // stuck in its first write from now on

	// an announcement the peer never delivers on, so that its tracker has something to re-request
	t := vkTx(67, []int{4}, true)
	tid := *t.TxHash()
	k.node.memPool.AddRequest(ctx, tid, false)
	u.txTracker.Add(tid)
	// the peer's pings: each is answered with a pong that goes into the queue for the peer
	go func() {
		for i := 0; i < 6; i++ {
			u.handleMessage(ctx, wire.NewMsgPing(uint64(i)))
		}
	}()
	verifrt.Quiesce()
	verifrt.Advance(4 * time.Second) // the request window of the announcement lapses
	// the peer's periodic check re-requests the announced transaction: it queues a getdata while
	// holding the peer's tracker
	go func() { u.txTracker.Check(ctx, k.node.memPool, u) }()
	verifrt.Quiesce()

	// the trusted chain moves on
	processed := false
	var berr error
	start := time.Now() // (virtual inside the engine, the wall clock natively)
	took := int64(-1)
	go func() {
		berr = k.node.ProcessBlock(ctx, vkBlock(*k.node.blocks.LastHash(), 1, nil))
		took = int64(time.Since(start))
		processed = true
	}()
	verifrt.Quiesce()
	for i := 0; i < 60 && !processed; i++ {
		time.Sleep(time.Second)
		verifrt.Quiesce()
	}
	verifrt.Note("block processed=%v after %d ms err=%v", processed, took/1000000, berr)
	verifrt.Sig("stalled-peer", "trusted-chain")
	verifrt.Assert(processed && berr == nil, "C12.no-stall.a-stalled-untrusted-peer-does-not-block-the-trusted-chain")
	// ... and not for as long as the peer likes either: the trusted side does not wait for an
	// untrusted peer's socket
	verifrt.Sig("stalled-peer", "delay")
	verifrt.Assert(took >= 0 && took <= int64(2*time.Second), "C12.no-stall.the-trusted-chain-does-not-wait-for-an-untrusted-socket")
	conn.Close()
	verifrt.Reach("C12.stalled-peer.done")
}
