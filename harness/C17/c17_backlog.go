//verif:pkg pkg/client
//verif:kit conn interleave
package client

// C17 — notifications that wait for the handler while the connection is replaced.

import (
	"bytes"
	"context"
	"net"
	"time"

	"github.com/tokenized/pkg/wire"

	"github.com/tokenized/spynode/internal/verifrt"
)

func c17Enc(p MessagePayload) []byte {
	var b bytes.Buffer
	(&Message{Payload: p}).Serialize(&b)
	return b.Bytes()
}

// VerifHarness_C17_backlog: three notifications have passed the id gate and wait in the queue to
// the handler goroutine (it is busy) when the connection drops and the real runConnection starts
// the next one.  The handler then catches up, the client declares ready with the value it reports,
// the server continues from there: the handlers have seen every id once, in order.
func VerifHarness_C17_backlog() {
	verifrt.Goroutines()
	ctx := context.Background()
	c := &RemoteClient{
		addRequestsChannel:     make(chan *request, 100),
		removeRequestsChannel:  make(chan *request, 100),
		requestResponseChannel: make(chan *requestResponse, 100),
	}
	c.handlerChannel = make(chan *Message, 100)
	c.sendChannel = make(chan *sendMessageRequest, 10)
	c.messageTimeout.Store(20 * time.Second)
	c.requestTimeout.Store(20 * time.Second)
	c.handshakeTimeout.Store(20 * time.Second)
	c.dialTimeout.Store(500 * time.Millisecond)
	c.accepted.Store(false)
	c.handshakeComplete.Store(false)
	c.isReconnecting.Store(false)
	c.handshakeCompleteChannel.Store(make(chan interface{}, 5))
	c.config.Store(Config{ConnectionType: ConnectionTypeFull})
	c.nextMessageID.Store(uint64(1))
	h := &c17Handler{}
	c.RegisterHandler(h)
	sendChannel := make(chan *sendMessageRequest, 10)
	receiveChannel := make(chan *Message, 10)
	interrupt := make(chan interface{})
	pause := func() {
		if verifrt.Symbolic() {
			verifrt.Quiesce()
		} else {
			time.Sleep(80 * time.Millisecond)
		}
	}
	// the harness is the handle thread ...
	handle := func() {
		for len(receiveChannel) > 0 {
			verifrt.Assert(c.handleMessage(ctx, <-receiveChannel) == nil, "C17.handle.no-error")
		}
	}
	// ... and the handler thread
	catchUp := func() {
		for len(c.handlerChannel) > 0 {
			verifrt.Assert(c.processHandler(ctx, <-c.handlerChannel) == nil, "C17.process.no-error")
		}
	}
	tx := func(id uint64) *Tx {
		t := wire.NewMsgTx(1)
		t.LockTime = uint32(id)
		return &Tx{ID: id, Tx: t}
	}

	// ---- connection 1
	conn1 := newVkPipe()
	c.conn.Store(net.Conn(conn1))
	done1 := false
	go func() {
		c.runConnection(ctx, net.Conn(conn1), sendChannel, receiveChannel, nil, interrupt)
		done1 = true
	}()
	pause()
	c.accepted.Store(true) // the server's accept (the handshake is C18's subject)
	verifrt.Assert(c.Ready(ctx, 1) == nil, "C17.ready.ok")
	backlog := 1 + verifrt.Choose("backlog", 3)
	for id := uint64(1); id <= uint64(backlog); id++ {
		conn1.feed(c17Enc(tx(id)))
	}
	pause()
	handle() // they pass the gate and are queued for the handler, which is busy
	verifrt.Sig("backlog", "next-id")
	verifrt.Assert(c.NextMessageID() == uint64(backlog)+1, "C17.next-id.is-last-delivered-plus-one")
	conn1.hangUp()
	pause()
	verifrt.Assert(done1, "C17.backlog.drop-ends-the-connection")

	// ---- connection 2
	conn2 := newVkPipe()
	c.conn.Store(net.Conn(conn2))
	go func() {
		c.runConnection(ctx, net.Conn(conn2), sendChannel, receiveChannel, nil, interrupt)
	}()
	pause()
	if verifrt.Choose("handler-catches-up-before-ready", 2) == 1 {
		catchUp()
	}
	c.accepted.Store(true)
	next := c.NextMessageID()
	verifrt.Assert(c.Ready(ctx, next) == nil, "C17.ready.ok")
	conn2.feed(c17Enc(tx(next)))
	pause()
	handle()
	catchUp()
	verifrt.Sig("backlog", "delivered")
	verifrt.Assert(len(h.log) == backlog+1, "C17.delivered.exactly-the-expected-messages")
	for i, e := range h.log {
		verifrt.Sig("backlog", "order")
		verifrt.Assert(e.id == uint64(i)+1, "C17.delivered.consecutive-ids")
	}
	close(interrupt)
	pause()
	verifrt.Reach("C17.backlog.done")
}
