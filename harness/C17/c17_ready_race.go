//verif:pkg pkg/client
//verif:kit conn interleave
package client

// C17 — the server answers the ready message before Ready has returned.

import (
	"context"
	"net"
	"time"

	"github.com/tokenized/pkg/wire"

	"github.com/tokenized/spynode/internal/verifrt"
)

// VerifHarness_C17_ready_race: Ready runs on the application's goroutine, handleMessage on the
// client's handle thread.  At the interleaving point inside Ready (the ready message is on the wire,
// Ready has not returned yet) the handle thread processes the first k notifications the server sent
// in reply.  Whatever k, the stream the server sends from the declared id is delivered completely,
// in order, once, and NextMessageID ends at the last id plus one - on a first connection (declared id
// chosen by the application) and on a reconnection (declared id = NextMessageID()).
func VerifHarness_C17_ready_race() {
	ctx := context.Background()
	nMsgs := 3
	if verifrt.Thorough() {
		nMsgs = 5
	}
	c := &RemoteClient{
		addRequestsChannel:     make(chan *request, 100),
		removeRequestsChannel:  make(chan *request, 100),
		requestResponseChannel: make(chan *requestResponse, 100),
	}
	c.handlerChannel = make(chan *Message, 100)
	c.messageTimeout.Store(50 * time.Millisecond)
	c.requestTimeout.Store(200 * time.Millisecond)
	c.handshakeComplete.Store(false)
	c.accepted.Store(true)
	c.conn.Store(net.Conn(newVkConn()))
	h := &c17Handler{}
	c.RegisterHandler(h)
	c.nextMessageID.Store(uint64(1))

	sent := uint64(0) // last id the server has sent on this connection
	send := func() {
		sent++
		tx := wire.NewMsgTx(1)
		tx.LockTime = uint32(sent)
		herr := c.handleMessage(ctx, &Message{Payload: &Tx{ID: sent, Tx: tx}})
		verifrt.Assert(herr == nil, "C17.handle.no-error")
	}
	connection := func(stage string, declared uint64, total int) {
		early := verifrt.Choose("replies-handled-before-ready-returns", total+1)
		sent = declared - 1
		vkInterleave = func(point string) {
			for i := 0; i < early; i++ {
				send()
			}
			if early > 0 {
				verifrt.Reach("C17.ready-race.interleaved")
			}
		}
		rerr := c.Ready(ctx, declared)
		vkInterleave = nil
		verifrt.Assert(rerr == nil, "C17.ready.ok")
		for i := early; i < total; i++ {
			send()
		}
		for len(c.handlerChannel) > 0 {
			msg := <-c.handlerChannel
			verifrt.Assert(c.processHandler(ctx, msg) == nil, "C17.process.no-error")
		}
		verifrt.Sig(stage, "next-id")
		verifrt.Assert(c.NextMessageID() == declared+uint64(total), "C17.ready-race.next-id-is-last-delivered-plus-one")
	}
	defer func() { vkInterleave = nil }()

	first := uint64(1 + verifrt.Choose("ready.id", 3))
	connection("first-connection", first, nMsgs)
	// connection lost and re-established (runConnection's per-connection reset), ready with the
	// reported value
	c.accepted.Store(false)
	c.handshakeComplete.Store(false)
	c.accepted.Store(true)
	connection("reconnection", c.NextMessageID(), nMsgs)

	verifrt.Sig("deliveries", "count")
	verifrt.Assert(len(h.log) == 2*nMsgs, "C17.ready-race.every-notification-delivered-once")
	for i, e := range h.log {
		verifrt.Sig("deliveries", "order")
		verifrt.Assert(e.id == first+uint64(i), "C17.ready-race.delivered-in-consecutive-order")
	}
	verifrt.Reach("C17.ready-race.done")
}
