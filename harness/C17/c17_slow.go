//verif:pkg pkg/client
//verif:kit conn
package client

// C17 — a slow handler: the queue between the receive side and the single handler goroutine is
// full when the next notification arrives.

import (
	"context"
	"net"
	"time"

	"github.com/tokenized/pkg/wire"

	"github.com/tokenized/spynode/internal/verifrt"
)

// VerifHarness_C17_slow_handler: the server streams transactions with consecutive ids; the handler
// goroutine takes a message off the queue only at chosen moments, so the queue (capacity 1 or 2
// here, 100 in Run: the code path is the same) can be full when a message arrives and
// addHandlerMessage gives up after the message time-out.  Whatever is dropped, the ids the handler
// sees are consecutive from the declared one, NextMessageID is the last delivered id plus one, and a
// reconnection that declares ready with that value gets every notification exactly once.
func VerifHarness_C17_slow_handler() {
	ctx := context.Background()
	nMsgs := 3
	if verifrt.Thorough() {
		nMsgs = 5
	}
	c := &RemoteClient{
		addRequestsChannel:     make(chan *request, 100),
		removeRequestsChannel:  make(chan *request, 100),
		requestResponseChannel: make(chan *requestResponse, 100),
	}
	capacity := 1 + verifrt.Choose("queue.capacity", 2)
	c.handlerChannel = make(chan *Message, capacity)
	c.messageTimeout.Store(50 * time.Millisecond)
	c.requestTimeout.Store(200 * time.Millisecond)
	c.handshakeComplete.Store(false)
	c.accepted.Store(true)
	c.conn.Store(net.Conn(newVkConn()))
	h := &c17Handler{}
	c.RegisterHandler(h)
	c.nextMessageID.Store(uint64(1))

	first := uint64(1 + verifrt.Choose("ready.id", 3))
	verifrt.Assert(c.Ready(ctx, first) == nil, "C17.ready.ok")

	take := func() {
		if len(c.handlerChannel) > 0 {
			msg := <-c.handlerChannel
			verifrt.Assert(c.processHandler(ctx, msg) == nil, "C17.process.no-error")
		}
	}
	stream := func(from uint64, n int, slow bool) {
		for s := 0; s < n; s++ {
			if !slow || verifrt.Choose("handler.takes-one", 2) == 1 {
				take()
			}
			tx := wire.NewMsgTx(1)
			tx.LockTime = uint32(s)
			full := len(c.handlerChannel) == capacity
			herr := c.handleMessage(ctx, &Message{Payload: &Tx{ID: from + uint64(s), Tx: tx}})
			verifrt.Assert(herr == nil, "C17.handle.no-error")
			if full {
				verifrt.Reach("C17.slow.queue-full")
			}
		}
	}
	stream(first, nMsgs, true)
	for len(c.handlerChannel) > 0 {
		take()
	}
	check := func(stage string) uint64 {
		last := first - 1
		for _, e := range h.log {
			verifrt.Sig(stage, "order")
			verifrt.Assert(e.id == last+1, "C17.slow.delivered-ids-are-consecutive-from-the-declared-one")
			last = e.id
		}
		verifrt.Sig(stage, "next-id")
		verifrt.Assert(c.NextMessageID() == last+1, "C17.slow.next-id-is-last-delivered-plus-one")
		return last
	}
	last := check("first-connection")

	// reconnection: ready with the reported value, the server resumes from it, the handler keeps up
	c.accepted.Store(false)
	c.handshakeComplete.Store(false)
	c.accepted.Store(true)
	next := c.NextMessageID()
	verifrt.Assert(c.Ready(ctx, next) == nil, "C17.ready.ok")
	remaining := int(first) + nMsgs - int(next)
	if remaining > 0 {
		stream(next, remaining, false)
	}
	for len(c.handlerChannel) > 0 {
		take()
	}
	last = check("after-reconnect")
	verifrt.Sig("after-reconnect", "complete")
	verifrt.Assert(last == first+uint64(nMsgs)-1, "C17.slow.nothing-missed-after-reconnect")
	verifrt.Reach("C17.slow.done")
}

// VerifHarness_C17_headers_stall: the requests goroutine is behind (its response queue is full for a
// whole message time-out) when a headers message arrives.  The handle thread gives up queuing it -
// and must go on: the notifications behind the headers message still reach the handlers.
func VerifHarness_C17_headers_stall() {
	ctx := context.Background()
	c := &RemoteClient{
		addRequestsChannel:     make(chan *request, 100),
		removeRequestsChannel:  make(chan *request, 100),
		requestResponseChannel: make(chan *requestResponse, 1),
	}
	c.handlerChannel = make(chan *Message, 100)
	c.messageTimeout.Store(50 * time.Millisecond)
	c.requestTimeout.Store(200 * time.Millisecond)
	c.handshakeComplete.Store(false)
	c.accepted.Store(true)
	c.conn.Store(net.Conn(newVkConn()))
	h := &c17Handler{}
	c.RegisterHandler(h)
	c.nextMessageID.Store(uint64(1))
	verifrt.Assert(c.Ready(ctx, 1) == nil, "C17.ready.ok")
	c.requestResponseChannel <- &requestResponse{message: &Message{Payload: &FeeQuotes{}}} // nobody is taking it

	blocked := verifrt.RunUntilBlocked(func() {
		c.handleMessage(ctx, &Message{Payload: &Headers{StartHeight: 9}})
	})
	verifrt.Sig("headers-stall", "blocked")
	verifrt.Assert(!blocked, "C17.handle-thread-does-not-block-for-ever-on-a-headers-message")
	if blocked {
		return
	}
	tx := wire.NewMsgTx(1)
	verifrt.Assert(c.handleMessage(ctx, &Message{Payload: &Tx{ID: 1, Tx: tx}}) == nil, "C17.handle.no-error")
	for len(c.handlerChannel) > 0 {
		msg := <-c.handlerChannel
		verifrt.Assert(c.processHandler(ctx, msg) == nil, "C17.process.no-error")
	}
	delivered := false
	for _, e := range h.log {
		if e.kind == "tx" && e.id == 1 {
			delivered = true
		}
	}
	verifrt.Sig("headers-stall", "later")
	verifrt.Assert(delivered, "C17.notification-behind-the-headers-message-is-delivered")
	verifrt.Reach("C17.headers-stall.done")
}
