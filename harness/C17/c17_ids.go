//verif:pkg pkg/client
//verif:kit conn
package client

// C17 — message-id gate and FIFO delivery to handlers.

import (
	"context"
	"net"
	"time"

	"github.com/tokenized/pkg/wire"

	"github.com/tokenized/spynode/internal/verifrt"
)

type c17Event struct {
	kind string
	id   uint64
	seq  int // position in the server stream
}

type c17Handler struct {
	log []c17Event
	cur *int
}

func (h *c17Handler) HandleTx(ctx context.Context, tx *Tx) {
	h.log = append(h.log, c17Event{"tx", tx.ID, int(tx.Tx.LockTime)})
}
func (h *c17Handler) HandleTxUpdate(ctx context.Context, u *TxUpdate) {
	h.log = append(h.log, c17Event{"update", u.ID, int(u.State.UnconfirmedDepth)})
}
func (h *c17Handler) HandleHeaders(ctx context.Context, hs *Headers) {
	h.log = append(h.log, c17Event{"headers", 0, int(hs.StartHeight)})
}
func (h *c17Handler) HandleInSync(ctx context.Context) {
	h.log = append(h.log, c17Event{"insync", 0, -1})
}
func (h *c17Handler) HandleMessage(ctx context.Context, p MessagePayload) {
	if ct, ok := p.(*ChainTip); ok {
		h.log = append(h.log, c17Event{"chaintip", 0, int(ct.Height)})
	}
}

func VerifHarness_C17_ids() {
	ctx := context.Background()
	nMsgs := 3
	if verifrt.Thorough() {
		nMsgs = 4
	}
	c := &RemoteClient{
		addRequestsChannel:     make(chan *request, 100),
		removeRequestsChannel:  make(chan *request, 100),
		requestResponseChannel: make(chan *requestResponse, 100),
	}
	c.handlerChannel = make(chan *Message, 100)
	c.messageTimeout.Store(200 * time.Millisecond)
	c.requestTimeout.Store(200 * time.Millisecond)
	c.handshakeComplete.Store(false)
	c.accepted.Store(true)
	conn := newVkConn()
	c.conn.Store(net.Conn(conn))
	h := &c17Handler{}
	c.RegisterHandler(h)
	interrupt := make(chan interface{})
	runRequests := func() bool {
		if len(c.requestResponseChannel)+len(c.addRequestsChannel)+len(c.removeRequestsChannel) == 0 {
			return false
		}
		verifrt.RunUntilBlocked(func() { c.runRequests(ctx, interrupt) })
		return true
	}
	if verifrt.Symbolic() {
		verifrt.OnBlocked(runRequests)
	} else {
		go c.runRequests(ctx, interrupt)
	}

	// constructor state (NewRemoteClient): first expected id is 1, handshake not complete
	c.nextMessageID.Store(uint64(1))
	expected := uint64(1)
	lastDelivered := uint64(0)
	var want []c17Event

	// Ready is declared at once or, on a Choose, one message into the connection (a message that
	// reaches the client before it declared ready is still subject to the id gate); the same after
	// a reconnect.
	id0 := verifrt.U64("ready.id")
	verifrt.Assume(id0 < 1<<62) // wrap-around of the id is outside the statement
	readyPending := true
	readyDelay := verifrt.Choose("ready-after-msgs", 2)
	reconnected := false
	declareReady := func() {
		next := id0
		if reconnected {
			// the client declares ready with the value it reports
			next = c.NextMessageID()
		}
		err := c.Ready(ctx, next)
		verifrt.Assert(err == nil, "C17.ready.ok")
		if !reconnected {
			expected = id0
			if id0 == 0 {
				expected = 1
			}
			lastDelivered = expected - 1
			verifrt.Sig("Ready", "next-id")
			verifrt.Assert(c.NextMessageID() == expected, "C17.next-id.after-ready")
		} else {
			verifrt.Sig("Reconnect", "next-id")
			verifrt.Assert(c.NextMessageID() == expected, "C17.next-id.survives-reconnect")
			verifrt.Reach("C17.reconnected")
		}
		readyPending = false
	}

	reconnectAt := verifrt.Choose("reconnect-at", nMsgs+1) // nMsgs = never
	for s := 0; s < nMsgs; s++ {
		if s == reconnectAt && !readyPending {
			// connection lost and re-established: runConnection resets the per-connection
			// handshake state, the server accepts again, and Ready follows now or one message
			// later.
			c.accepted.Store(false)
			c.handshakeComplete.Store(false)
			c.accepted.Store(true)
			reconnected = true
			readyPending = true
			readyDelay = verifrt.Choose("ready-after-msgs", 2)
		}
		if readyPending {
			if readyDelay == 0 {
				declareReady()
			} else {
				readyDelay--
				verifrt.Reach("C17.msg.before-ready")
			}
		}
		kind := verifrt.Choose("msg.kind", 5)
		var m *Message
		switch kind {
		case 0:
			id := verifrt.U64("msg.id")
			tx := wire.NewMsgTx(1)
			tx.LockTime = uint32(s)
			m = &Message{Payload: &Tx{ID: id, Tx: tx}}
			if id == expected {
				want = append(want, c17Event{"tx", id, s})
				lastDelivered = id
				expected = id + 1
				verifrt.Reach("C17.tx.accepted")
			} else {
				verifrt.Reach("C17.tx.dropped")
			}
		case 1:
			id := verifrt.U64("msg.id")
			m = &Message{Payload: &TxUpdate{ID: id, State: TxState{UnconfirmedDepth: uint32(s)}}}
			if id == expected {
				want = append(want, c17Event{"update", id, s})
				lastDelivered = id
				expected = id + 1
			}
		case 2:
			m = &Message{Payload: &InSync{}}
			want = append(want, c17Event{"insync", 0, -1})
		case 3:
			m = &Message{Payload: &ChainTip{Height: uint32(s)}}
			want = append(want, c17Event{"chaintip", 0, s})
		case 4:
			m = &Message{Payload: &Headers{StartHeight: uint32(s), RequestHeight: 0}}
			want = append(want, c17Event{"headers", 0, s}) // unsolicited: goes to the handlers
		}
		herr := c.handleMessage(ctx, m)
		verifrt.Sig("handleMessage", "err")
		verifrt.Assert(herr == nil, "C17.handle.no-error")
		verifrt.Sig("handleMessage", "next-id")
		verifrt.Assert(c.NextMessageID() == lastDelivered+1, "C17.next-id.is-last-delivered-plus-one")
	}
	if !verifrt.Symbolic() {
		time.Sleep(10 * time.Millisecond)
	}
	// the single handler goroutine drains the FIFO channel
	for len(c.handlerChannel) > 0 {
		msg := <-c.handlerChannel
		perr := c.processHandler(ctx, msg)
		verifrt.Assert(perr == nil, "C17.process.no-error")
	}
	if !verifrt.Symbolic() {
		close(interrupt)
	}
	verifrt.Sig("deliveries", "count")
	verifrt.Assert(len(h.log) == len(want), "C17.delivered.exactly-the-expected-messages")
	if len(h.log) != len(want) {
		return
	}
	for i := range want {
		verifrt.Sig("deliveries", "order")
		verifrt.Assert(h.log[i].kind == want[i].kind && h.log[i].seq == want[i].seq, "C17.delivered.in-server-order")
		verifrt.Sig("deliveries", "id")
		verifrt.Assert(h.log[i].id == want[i].id, "C17.delivered.consecutive-ids")
	}
	verifrt.Reach("C17.ids.done")
}
