//verif:pkg internal/spynode
//verif:kit memstore nodekit synckit worldkit interleave
package spynode

// C01 — convergence to the trusted peer's best chain through extensions and
// reorganisations, with a reference peer and a symbolic scheduler.

import (
	"context"
	"time"

	"github.com/tokenized/pkg/wire"

	"github.com/tokenized/spynode/internal/verifrt"
)

func VerifHarness_C01_converge() {
	ctx := context.Background()
	freeSteps, rounds := 4, 6
	if verifrt.Thorough() {
		freeSteps = 5
	}
	k, err := vkNewNode(ctx, nil)
	verifrt.Assert(err == nil, "C01.kit.node-loads")
	k.node.state.SetVersionReceived()
	k.node.state.MarkConnected()
	tree := vkNewTree(*k.node.blocks.LastHash())
	tree.add("a1", "", nil)
	tree.add("a2", "a1", []*wire.MsgTx{vkTx(1, []int{0}, true)})
	tree.add("a3", "a2", nil)
	tree.add("b2", "a1", []*wire.MsgTx{vkTx(2, []int{0}, true)})
	tree.add("b3", "b2", nil)
	tree.add("b4", "b3", nil)
	tips := []string{"a2", "a3", "b3", "b4"}
	w := &c01World{ctx: ctx, k: k, tree: tree, heard: map[string]bool{}, interleave: 1}
	w.peer = vkNewPeer(tree, tips[verifrt.Choose("peer.initial-tip", 2)])

	steps := []string{"s0", "s1", "s2", "s3", "s4"}
	for s := 0; s < freeSteps; s++ {
		before := w.countInSync()
		switch verifrt.Choose(steps[s]+".step", 6) {
		case 0:
			w.deliver()
		case 1:
			w.process()
		case 2:
			w.poll()
		case 3: // the peer's best chain changes (extension or reorganisation) and is announced
			tip := tips[verifrt.Choose(steps[s]+".new-tip", len(tips))]
			// a best chain only changes to one with more work
			verifrt.Assume(len(tree.chainTo(tip)) > len(w.peer.best))
			w.peer.setBest(tip)
			verifrt.Reach("C01.peer.best-chain-changed")
		case 4: // the last message is delivered again
			if w.last != nil {
				w.k.node.handleMessage(ctx, w.last)
				w.pump()
			}
		case 5: // a new process on the same storage (the in-process restart of Node.Run is a step of C01_race)
			w.restart()
		}
		w.checkInSyncNotifications(before)
		vkChainLinked(ctx, w.k.node, steps[s])
	}

	// fair closure: everything queued is consumed, processing and polling run,
	// and when nothing else is enabled the request time-outs are allowed to fire
	for r := 0; r < rounds; r++ {
		before := w.countInSync()
		progressed := false
		for w.deliver() {
			progressed = true
			w.process()
		}
		w.process()
		w.poll()
		if len(w.peer.toNode) > 0 {
			progressed = true
		}
		w.checkInSyncNotifications(before)
		verifrt.Note("closure round %d: node height %d tip %s, peer best %v, queued %d, requests %d, ready %v", r, w.k.node.blocks.LastHeight(), w.tree.byHash[*w.k.node.blocks.LastHash()], w.peer.best, len(w.peer.toNode), w.k.node.state.TotalBlockRequestCount(), w.k.node.state.IsReady())
		if !progressed && !w.converged() {
			// nothing in flight and not there yet: time passes until a request time-out fires
			verifrt.Advance(11 * time.Minute)
			if terr := w.k.node.state.CheckTimeouts(); terr != nil {
				w.reconnect() // Node.Run restarts in place: same node, State.Reset, new connection
				verifrt.Reach("C01.timeout.restart")
			}
		}
	}
	vkChainLinked(ctx, w.k.node, "closure")
	best := w.peer.best
	verifrt.Sig("closure", "tip")
	verifrt.Assert(w.k.node.blocks.LastHeight() == len(best), "C01.converges.tip-height-equals-peers")
	for i, name := range best {
		h, herr := w.k.node.blocks.Hash(ctx, i+1)
		verifrt.Sig("closure", "hash")
		verifrt.Assert(herr == nil && h != nil && *h == tree.hashes[name], "C01.converges.every-height-equals-peers-best-chain")
	}
	verifrt.Reach("C01.converge.done")
}


// VerifHarness_C01_race: the same world, but the free steps start from a node that has already
// settled in sync on the peer's initial tip (so that the few free steps are spent on what happens
// around a tip change, not on the initial download), and a peer message may be handled between
// the block processor's pop of a block and its ProcessBlock call.
func VerifHarness_C01_race() {
	ctx := context.Background()
	freeSteps, rounds := 3, 6
	if verifrt.Thorough() {
		freeSteps = 4
	}
	k, err := vkNewNode(ctx, nil)
	verifrt.Assert(err == nil, "C01.kit.node-loads")
	k.node.state.SetVersionReceived()
	k.node.state.MarkConnected()
	tree := vkNewTree(*k.node.blocks.LastHash())
	tree.add("a1", "", nil)
	tree.add("a2", "a1", []*wire.MsgTx{vkTx(1, []int{0}, true)})
	tree.add("a3", "a2", nil)
	var tips, starts []string
	deepFork := verifrt.Choose("tree", 2) == 1
	if !deepFork {
		// fork at height 1
		tree.add("b2", "a1", []*wire.MsgTx{vkTx(2, []int{0}, true)})
		tree.add("b3", "b2", nil)
		tree.add("b4", "b3", nil)
		// ... and the first branch can overtake again (back to a branch that was reverted)
		tree.add("a4", "a3", nil)
		tree.add("a5", "a4", nil)
		tips, starts = []string{"a2", "a3", "b3", "b4", "a5"}, []string{"a1", "a2"}
	} else {
		// fork at height 3, deeper than one getheaders reply reaches from genesis (limit 2 below)
		tree.add("a4", "a3", nil)
		tree.add("b4", "a3", []*wire.MsgTx{vkTx(2, []int{0}, true)})
		tree.add("b5", "b4", nil)
		tips, starts = []string{"a4", "b5"}, []string{"a3", "a4"}
	}
	w := &c01World{ctx: ctx, k: k, tree: tree, heard: map[string]bool{}}
	w.peer = vkNewPeer(tree, starts[verifrt.Choose("peer.initial-tip", 2)])
	w.peer.maxHeaders = 2 // a getheaders reply is bounded (2000 in Bitcoin; 2 for this tree size)
	w.settle(rounds)
	verifrt.Assume(w.converged() && w.k.node.state.IsReady() && w.peer.sendHeaders)
	verifrt.Reach("C01.race.settled-in-sync")
	w.interleave = 1

	steps := []string{"s0", "s1", "s2", "s3", "s4"}
	for s := 0; s < freeSteps; s++ {
		before := w.countInSync()
		switch verifrt.Choose(steps[s]+".step", 5) {
		case 4:
			w.reconnect()
		case 0:
			w.deliver()
		case 1:
			w.process()
		case 2:
			w.poll()
		case 3: // the peer's best chain changes (extension or reorganisation) and is announced
			tip := tips[verifrt.Choose(steps[s]+".new-tip", len(tips))]
			verifrt.Assume(len(tree.chainTo(tip)) > len(w.peer.best))
			w.peer.setBest(tip)
			verifrt.Reach("C01.peer.best-chain-changed")
		}
		w.checkInSyncNotifications(before)
		vkChainLinked(ctx, w.k.node, steps[s])
	}
	for r := 0; r < rounds; r++ {
		before := w.countInSync()
		progressed := false
		for w.deliver() {
			progressed = true
			w.process()
		}
		w.process()
		w.poll()
		if len(w.peer.toNode) > 0 {
			progressed = true
		}
		w.checkInSyncNotifications(before)
		verifrt.Note("closure round %d: node height %d tip %s, peer best %v, queued %d, requests %d, ready %v", r, w.k.node.blocks.LastHeight(), w.tree.byHash[*w.k.node.blocks.LastHash()], w.peer.best, len(w.peer.toNode), w.k.node.state.TotalBlockRequestCount(), w.k.node.state.IsReady())
		if !progressed && !w.converged() {
			verifrt.Advance(11 * time.Minute)
			if terr := w.k.node.state.CheckTimeouts(); terr != nil {
				w.reconnect() // Node.Run restarts in place: same node, State.Reset, new connection
				verifrt.Reach("C01.timeout.restart")
			}
		}
	}
	vkChainLinked(ctx, w.k.node, "closure")
	best := w.peer.best
	verifrt.Sig("closure", "tip")
	verifrt.Assert(w.k.node.blocks.LastHeight() == len(best), "C01.converges.tip-height-equals-peers")
	for i, name := range best {
		h, herr := w.k.node.blocks.Hash(ctx, i+1)
		verifrt.Sig("closure", "hash")
		verifrt.Assert(herr == nil && h != nil && *h == tree.hashes[name], "C01.converges.every-height-equals-peers-best-chain")
	}
	verifrt.Reach("C01.race.done")
}
