//verif:pkg internal/spynode
//verif:kit memstore nodekit synckit worldkit interleave
package spynode

// C01 — the instant of the in-sync notification, and tips announced by block inventory.

import (
	"context"
	"time"

	"github.com/tokenized/pkg/wire"
	"github.com/tokenized/spynode/internal/handlers"

	"github.com/tokenized/spynode/internal/verifrt"
)

// VerifHarness_C01_notify: with the mempool request configured (the daemon's default) the periodic
// check that finds the node in sync sends sendheaders and the mempool request, and the check after
// that one delivers the in-sync notification.  The trusted peer may announce a new block in
// between (it has just been asked for header announcements): the notification must then wait until
// that block is held.
func VerifHarness_C01_notify() {
	ctx := context.Background()
	k, err := vkNewNode(ctx, nil)
	verifrt.Assert(err == nil, "C01.kit.node-loads")
	k.node.state.SetVersionReceived()
	k.node.state.MarkConnected()
	k.node.config.RequestMempool = verifrt.Choose("request-mempool", 2) == 1
	tree := vkNewTree(*k.node.blocks.LastHash())
	tree.add("a1", "", nil)
	tree.add("a2", "a1", nil)
	tree.add("a3", "a2", nil)
	w := &c01World{ctx: ctx, k: k, tree: tree, heard: map[string]bool{}}
	w.peer = vkNewPeer(tree, "a2")
	// the sync up to the point where the node is in sync and the notification is still to come:
	// without the mempool request that is before the first periodic check that finds it in sync,
	// with it that is after that check (which sent sendheaders and the mempool request)
	for r := 0; r < 8; r++ {
		for w.deliver() {
			w.process()
		}
		w.process()
		if k.node.state.IsReady() && (!k.node.config.RequestMempool || k.node.state.MemPoolRequested()) {
			break
		}
		w.poll()
	}
	// the periodic check, the peer's new block and its announcement, in any order the goroutines allow
	extended := false
	for s := 0; s < 4; s++ {
		before := w.countInSync()
		switch verifrt.Choose("step", 4) {
		case 0:
			w.poll()
		case 1:
			if !extended {
				w.peer.setBest("a3")
				extended = true
			}
		case 2:
			w.deliver()
		case 3:
			w.interleavePoll = 1 // the check may also run while the processor holds a block
			w.process()
			w.interleavePoll = 0
		}
		w.checkInSyncNotifications(before)
	}
	if !extended {
		w.peer.setBest("a3")
	}
	before := w.countInSync()
	w.settle(5)
	w.checkInSyncNotifications(before)
	verifrt.Sig("notify", "converged")
	verifrt.Assert(w.converged(), "C01.converges.tip-height-equals-peers")
	verifrt.Sig("notify", "notified")
	verifrt.Assert(w.countInSync() == 1, "C01.in-sync.notified-once-in-the-end")
	verifrt.Reach("C01.notify.done")
}

// VerifHarness_C01_inv: a node that is in sync; the trusted peer's tip changes (extension by one or
// two blocks, or a reorganisation) and the peer announces it the way a Bitcoin node may even after
// sendheaders: by a block inventory of its new tip (bitcoind does that when the headers would not
// connect for the receiver, or for more than eight blocks).  The node still ends on the peer's tip.
func VerifHarness_C01_inv() {
	ctx := context.Background()
	k, err := vkNewNode(ctx, nil)
	verifrt.Assert(err == nil, "C01.kit.node-loads")
	k.node.state.SetVersionReceived()
	k.node.state.MarkConnected()
	tree := vkNewTree(*k.node.blocks.LastHash())
	tree.add("a1", "", nil)
	tree.add("a2", "a1", nil)
	tree.add("a3", "a2", nil)
	tree.add("a4", "a3", nil)
	tree.add("b2", "a1", nil)
	tree.add("b3", "b2", nil)
	w := &c01World{ctx: ctx, k: k, tree: tree, heard: map[string]bool{}}
	w.peer = vkNewPeer(tree, "a2")
	w.settle(4)
	verifrt.Assert(w.converged() && k.node.state.IsReady(), "C01.inv.settled-in-sync")
	tips := []string{"a3", "a4", "b3"}
	tip := tips[verifrt.Choose("new-tip", len(tips))]
	// the tip changes without a headers announcement ...
	w.peer.sendHeaders = false
	w.peer.setBest(tip)
	w.peer.sendHeaders = true
	// ... but with a block inventory
	inv := wire.NewMsgInv()
	h := tree.hashes[tip]
	inv.AddInvVect(wire.NewInvVect(wire.InvTypeBlock, &h))
	w.peer.send(inv)
	w.settle(6)
	verifrt.Note("closure: node height %d tip %s, peer best %v", k.node.blocks.LastHeight(), tree.byHash[*k.node.blocks.LastHash()], w.peer.best)
	verifrt.Sig("inv", tip, "stall")
	verifrt.Assert(w.converged(), "C01.converges.tip-height-equals-peers")
	verifrt.Reach("C01.inv.done")
}

// VerifHarness_C01_pending_fork: the node is in sync; the peer announces three new blocks (all
// requested, bodies arrive and are processed for the first k of them), then reorganises onto a
// branch that forks off one of the announced-but-unprocessed blocks.  Requests beyond the fork point
// are discarded, the new branch is requested, and the node ends on the peer's tip.
func VerifHarness_C01_pending_fork() {
	ctx := context.Background()
	k, err := vkNewNode(ctx, nil)
	verifrt.Assert(err == nil, "C01.kit.node-loads")
	k.node.state.SetVersionReceived()
	k.node.state.MarkConnected()
	tree := vkNewTree(*k.node.blocks.LastHash())
	tree.add("a1", "", nil)
	tree.add("a2", "a1", nil)
	tree.add("a3", "a2", nil)
	tree.add("a4", "a3", nil)
	tree.add("a5", "a4", nil)
	forkAt := []string{"a3", "a4"}[verifrt.Choose("fork-parent", 2)]
	tree.add("b1", forkAt, nil)
	tree.add("b2", "b1", nil)
	tree.add("b3", "b2", nil)
	w := &c01World{ctx: ctx, k: k, tree: tree, heard: map[string]bool{}}
	w.peer = vkNewPeer(tree, "a2")
	w.settle(4)
	verifrt.Assert(w.converged() && k.node.state.IsReady(), "C01.pending-fork.settled-in-sync")
	w.peer.setBest("a5")
	w.deliver() // the announcement of a3..a5: three block requests
	verifrt.Assert(k.node.state.TotalBlockRequestCount() == 3, "C01.pending-fork.three-blocks-requested")
	// the peer answers the block requests one by one; it has sent the first nb bodies when it
	// changes its mind, announces the new branch, and only then sends the remaining bodies
	bodies := w.peer.toNode
	nb := verifrt.Choose("bodies-before-the-fork", 3)
	verifrt.Assert(len(bodies) == 3, "C01.pending-fork.three-bodies-on-their-way")
	w.peer.toNode = append([]wire.Message{}, bodies[:nb]...)
	for w.deliver() {
		if verifrt.Choose("processed", 2) == 1 {
			w.process()
		}
	}
	w.peer.setBest("b3")
	w.peer.toNode = append(w.peer.toNode, bodies[nb:]...)
	before := w.countInSync()
	// the fork announcement may be handled while the block processor holds a block it has taken off
	// the queue and not yet processed (interleaving point between NextBlock and ProcessBlock)
	if verifrt.Choose("announcement-handled-inside-the-block-processor", 2) == 1 {
		w.interleave = 1
		w.process()
		w.interleave = 0
	}
	w.settle(8)
	w.checkInSyncNotifications(before)
	verifrt.Note("closure: node height %d tip %s, peer best %v", k.node.blocks.LastHeight(), tree.byHash[*k.node.blocks.LastHash()], w.peer.best)
	vkChainLinked(ctx, k.node, "closure")
	verifrt.Sig("pending-fork", forkAt, "stall")
	verifrt.Assert(w.converged(), "C01.converges.tip-height-equals-peers")
	verifrt.Reach("C01.pending-fork.done")
}

// VerifHarness_C01_inv_early: the initial download is still going on (the node has not asked for
// header announcements yet) when the peer's chain grows by one block, twice, which a Bitcoin
// node then announces by a block inventory of its new tip.  The node still ends on the peer's tip, and the
// in-sync notification waits for the announced blocks.
func VerifHarness_C01_inv_early() {
	ctx := context.Background()
	k, err := vkNewNode(ctx, nil)
	verifrt.Assert(err == nil, "C01.kit.node-loads")
	k.node.state.SetVersionReceived()
	k.node.state.MarkConnected()
	tree := vkNewTree(*k.node.blocks.LastHash())
	names := []string{"a1", "a2", "a3", "a4", "a5", "a6", "a7", "a8"}
	parent := ""
	for _, n := range names {
		tree.add(n, parent, nil)
		parent = n
	}
	w := &c01World{ctx: ctx, k: k, tree: tree, heard: map[string]bool{}}
	w.peer = vkNewPeer(tree, "a6")
	grown := 0
	grow := func() {
		if grown >= 2 {
			return
		}
		grown++
		tip := []string{"a7", "a8"}[grown-1]
		if w.peer.sendHeaders {
			w.peer.setBest(tip) // announced by headers
			return
		}
		w.peer.setBest(tip) // (silent: no header announcements were asked for)
		inv := wire.NewMsgInv()
		h := tree.hashes[tip]
		inv.AddInvVect(wire.NewInvVect(wire.InvTypeBlock, &h))
		w.peer.send(inv)
		// (a Bitcoin node does not announce these blocks again when it is later asked for header
		// announcements)
		for _, n := range w.peer.best {
			w.peer.announced[n] = true
		}
		verifrt.Reach("C01.inv-early.announced-by-inventory")
	}
	// the fair schedule of the world kit (deliver and process alternately, poll when nothing is on
	// its way), with the growth of the peer's chain at any one of its steps
	horizon := 30
	if verifrt.Thorough() {
		horizon = 45
	}
	growAt := verifrt.Choose("chain-grows-before-step", horizon)
	growAgain := growAt + verifrt.Choose("and-again-so-many-steps-later", horizon-growAt)
	step := 0
	tick := func() {
		if step == growAt {
			grow()
		}
		if step == growAgain {
			grow()
		}
		step++
	}
	for r := 0; r < 12 && step < horizon; r++ {
		for {
			tick()
			before := w.countInSync()
			delivered := w.deliver()
			w.checkInSyncNotifications(before)
			if !delivered {
				break
			}
			tick()
			before = w.countInSync()
			w.process()
			w.checkInSyncNotifications(before)
		}
		tick()
		before := w.countInSync()
		w.process()
		w.checkInSyncNotifications(before)
		tick()
		before = w.countInSync()
		w.poll()
		w.checkInSyncNotifications(before)
	}
	grow()
	grow()
	before := w.countInSync()
	w.settle(8)
	w.checkInSyncNotifications(before)
	verifrt.Note("closure: node height %d tip %s, peer best %v", k.node.blocks.LastHeight(), tree.byHash[*k.node.blocks.LastHash()], w.peer.best)
	verifrt.Sig("inv-early", "stall")
	verifrt.Assert(w.converged(), "C01.converges.tip-height-equals-peers")
	verifrt.Reach("C01.inv-early.done")
}

// VerifHarness_C01_inv_tail: as C01_inv_early with the block processor lagging behind the network, as
// it does in a real initial download: every message is preceded by the periodic check (the read
// loop runs it before each read), all announced bodies arrive, p of them are processed, and the
// peer's chain grows by one block at two chosen points of what follows (announced by block inventory
// while the node has not asked for header announcements).
func VerifHarness_C01_inv_tail() {
	ctx := context.Background()
	k, err := vkNewNode(ctx, nil)
	verifrt.Assert(err == nil, "C01.kit.node-loads")
	k.node.state.SetVersionReceived()
	k.node.state.MarkConnected()
	tree := vkNewTree(*k.node.blocks.LastHash())
	parent := ""
	for _, n := range []string{"a1", "a2", "a3", "a4", "a5", "a6", "a7", "a8"} {
		tree.add(n, parent, nil)
		parent = n
	}
	w := &c01World{ctx: ctx, k: k, tree: tree, heard: map[string]bool{}}
	w.peer = vkNewPeer(tree, "a6")
	grown := 0
	grow := func() {
		if grown >= 2 {
			return
		}
		grown++
		tip := []string{"a7", "a8"}[grown-1]
		announceByInv := !w.peer.sendHeaders
		w.peer.setBest(tip)
		if announceByInv {
			inv := wire.NewMsgInv()
			h := tree.hashes[tip]
			inv.AddInvVect(wire.NewInvVect(wire.InvTypeBlock, &h))
			w.peer.send(inv)
			for _, n := range w.peer.best {
				w.peer.announced[n] = true
			}
			verifrt.Reach("C01.inv-tail.announced-by-inventory")
		}
	}
	// the read loop: the periodic check, then the next message
	// (while the node is not in sync and has fewer than five blocks pending every answer to a poll
	// is followed by the next poll, so the exchange is cut after a few messages)
	exchange := func() {
		for n := 0; n < 10; n++ {
			before := w.countInSync()
			w.poll()
			w.checkInSyncNotifications(before)
			before = w.countInSync()
			delivered := w.deliver()
			w.checkInSyncNotifications(before)
			if !delivered {
				return
			}
		}
	}
	// one block: the processor is stopped (as Stop would) once it has taken a block off the queue,
	// so its loop ends after that block
	processOne := func() {
		before := w.countInSync()
		vkInterleave = func(point string) {
			k.node.lock.Lock()
			k.node.stopping = true
			k.node.lock.Unlock()
		}
		verifrt.OnSleep(func(d time.Duration) { // nothing to process: the loop would sleep and look again
			k.node.lock.Lock()
			k.node.stopping = true
			k.node.lock.Unlock()
		})
		perr := k.node.processBlocks(ctx)
		verifrt.OnSleep(nil)
		vkInterleave = nil
		k.node.lock.Lock()
		k.node.stopping = false
		k.node.lock.Unlock()
		verifrt.Assert(perr == nil, "C01.process.no-error")
		w.pump()
		w.checkInSyncNotifications(before)
	}
	exchange() // headers a1..a6, all six bodies
	// the processor's progress and the two growth events, interleaved: each of the next 8 slots is a
	// processing step preceded, at two chosen slots, by a growth of the peer's chain; the wire is
	// served (check, read) after every slot or only after the growth events
	g1 := verifrt.Choose("first-growth-before-slot", 8)
	g2 := g1 + verifrt.Choose("second-growth-slots-later", 8-g1)
	eager := verifrt.Choose("read-loop-runs-after-every-slot", 2) == 1
	for slot := 0; slot < 8; slot++ {
		if slot == g1 {
			grow()
			exchange()
		}
		if slot == g2 {
			grow()
			exchange()
		}
		if k.node.state.BlocksRequestedCount() > 0 {
			processOne()
		}
		if eager {
			exchange()
		}
	}
	grow()
	grow()
	before := w.countInSync()
	w.settle(8)
	w.checkInSyncNotifications(before)
	verifrt.Note("closure: node height %d tip %s, peer best %v", k.node.blocks.LastHeight(), tree.byHash[*k.node.blocks.LastHash()], w.peer.best)
	verifrt.Sig("inv-tail", "stall")
	verifrt.Assert(w.converged(), "C01.converges.tip-height-equals-peers")
	verifrt.Reach("C01.inv-tail.done")
}

// VerifHarness_C01_pending_fork_race: as C01_pending_fork with every body already received, and the
// block processor taking the fork parent off the queue (NextBlock runs without the block lock)
// exactly between the headers handler's "is the parent requested?" and its "clear the requests
// after it" (interleaving point in the handler).  The node still ends on the peer's tip.
func VerifHarness_C01_pending_fork_race() {
	ctx := context.Background()
	k, err := vkNewNode(ctx, nil)
	verifrt.Assert(err == nil, "C01.kit.node-loads")
	k.node.state.SetVersionReceived()
	k.node.state.MarkConnected()
	tree := vkNewTree(*k.node.blocks.LastHash())
	tree.add("a1", "", nil)
	tree.add("a2", "a1", nil)
	tree.add("a3", "a2", nil)
	tree.add("a4", "a3", nil)
	tree.add("a5", "a4", nil)
	tree.add("b1", "a3", nil)
	tree.add("b2", "b1", nil)
	tree.add("b3", "b2", nil)
	w := &c01World{ctx: ctx, k: k, tree: tree, heard: map[string]bool{}}
	w.peer = vkNewPeer(tree, "a2")
	w.settle(4)
	verifrt.Assert(w.converged() && k.node.state.IsReady(), "C01.pending-fork.settled-in-sync")
	w.peer.setBest("a5")
	for w.deliver() { // the announcement and the three bodies; nothing processed yet
	}
	verifrt.Assert(k.node.state.TotalBlockRequestCount() == 3, "C01.pending-fork.three-blocks-requested")
	w.peer.setBest("b3")
	var popped wire.Block
	handlers.VkInterleave = func(point string) {
		if popped == nil {
			popped = k.node.state.NextBlock() // the processor takes a3, the fork parent
			verifrt.Reach("C01.pending-fork-race.parent-popped-inside-the-handler")
		}
	}
	w.deliver() // the fork announcement
	handlers.VkInterleave = nil
	verifrt.Assert(popped != nil, "C01.pending-fork-race.interleaved")
	// the processor goes on with the block it took (what processBlocks does after NextBlock)
	if perr := k.node.ProcessBlock(ctx, popped); perr != nil {
		k.node.state.SetLastHash(*k.node.blocks.LastHash())
		k.node.state.ClearInSync()
	}
	k.node.state.BlockProcessed()
	w.pump()
	before := w.countInSync()
	w.settle(8)
	w.checkInSyncNotifications(before)
	verifrt.Note("closure: node height %d tip %s, peer best %v", k.node.blocks.LastHeight(), tree.byHash[*k.node.blocks.LastHash()], w.peer.best)
	vkChainLinked(ctx, k.node, "closure")
	verifrt.Sig("pending-fork-race", "stall")
	verifrt.Assert(w.converged(), "C01.converges.tip-height-equals-peers")
	verifrt.Reach("C01.pending-fork-race.done")
}
