//verif:pkg internal/spynode
//verif:kit memstore nodekit synckit conn runkit interleave
package spynode

// C01 — convergence through the real Node.Run: initial sync, a connection lost at any tick of the
// download (with block requests outstanding or not), the peer's best chain changing while the
// node is disconnected (extension, or a reorganisation whose fork point lies deeper than one
// getheaders reply reaches from genesis), the in-process restart and the reconnection.

import (
	"context"
	"time"

	"github.com/tokenized/pkg/wire"

	"github.com/tokenized/spynode/internal/verifrt"
)

func VerifHarness_C01_session() {
	verifrt.Goroutines()
	ctx := context.Background()
	w, store, cfg := c19NewWorld(ctx)
	if w.ln != nil {
		defer w.ln.Close()
	}
	// c19NewWorld's chain is a1-a2-a3-a4 (start block a1); add a branch off a3
	w.tree.add("b4", "a3", []*wire.MsgTx{vkTx(3, []int{2}, true)})
	w.tree.add("b5", "b4", nil)
	w.peer.maxHeaders = 2 // a getheaders reply is bounded (2000 in Bitcoin)
	w.pingEvery = 5       // and the peer shows activity (pings) like a Bitcoin node
	w.peer.setBest("a4")
	w.newNode(cfg, store)
	node := w.node
	w.connectPeer()
	go node.Run(ctx)

	lostAt := verifrt.Choose("connection-lost-at-tick", 14) // 13: never
	newTip := []string{"a4", "b5"}[verifrt.Choose("peer-tip-after-the-loss", 2)]
	for tick := 0; tick < 14; tick++ {
		if tick == lostAt && lostAt < 13 {
			w.link.hangUp()
			w.connectPeer()
			w.peer.setBest(newTip)
			verifrt.Reach("C01.session.connection-lost")
		}
		w.tick(100 * time.Millisecond)
	}
	if lostAt >= 13 {
		w.peer.setBest(newTip) // announced on the live connection (or found by polling)
	}
	converged := func() bool {
		best := w.peer.best
		if node.blocks.LastHeight() != len(best) {
			return false
		}
		return *node.blocks.LastHash() == w.tree.hashes[best[len(best)-1]]
	}
	for tick := 0; tick < 100 && !(converged() && node.state.IsReady()); tick++ {
		w.tick(100 * time.Millisecond)
	}
	verifrt.Note("node height %d, peer best %v, ready %v, sent %v", node.blocks.LastHeight(), w.peer.best, node.state.IsReady(), w.commands())
	verifrt.Sig("session", "converged")
	verifrt.Assert(converged(), "C01.session.converges-to-the-peers-best-chain")
	for i, name := range w.peer.best {
		h, herr := node.blocks.Hash(ctx, i+1)
		verifrt.Sig("session", "hash")
		verifrt.Assert(herr == nil && h != nil && *h == w.tree.hashes[name], "C01.session.every-height-equals-peers-best-chain")
	}
	node.Stop(ctx)
	verifrt.Reach("C01.session.done")
}
