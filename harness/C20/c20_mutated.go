//verif:pkg pkg/client
package client

// C20 — client protocol decoders on a VALID encoding with a symbolic window:
// the real Serialize of a populated value of each list/length-bearing message
// type, w consecutive bytes at a chosen offset replaced by solver variables
// (every offset), decoded by the real Deserialize.  Reaches the count and
// length fields that sit deeper than the short fully symbolic buffers of
// VerifHarness_C20_client.

import (
	"bytes"
	"encoding/hex"

	"github.com/tokenized/pkg/bitcoin"
	"github.com/tokenized/pkg/merchant_api"
	"github.com/tokenized/pkg/wire"

	"github.com/tokenized/spynode/internal/verifrt"
)

func c20mHash(b byte) bitcoin.Hash32 {
	var h bitcoin.Hash32
	for i := range h {
		h[i] = b + byte(i)
	}
	return h
}

func c20mTx() *wire.MsgTx {
	tx := wire.NewMsgTx(1)
	h := c20mHash(9)
	tx.AddTxIn(wire.NewTxIn(wire.NewOutPoint(&h, 1), []byte{0x51, 0x52}))
	tx.AddTxOut(wire.NewTxOut(1000, []byte{0x51, 0x52, 0x53}))
	return tx
}

func c20mHeader(i int) wire.BlockHeader {
	return wire.BlockHeader{Version: 1, PrevBlock: c20mHash(byte(i)), MerkleRoot: c20mHash(byte(0x40 + i)), Timestamp: uint32(1600000000 + i), Bits: 0x1d00ffff, Nonce: uint32(i)}
}

func c20mPayloads() []MessagePayload {
	h1, h2 := c20mHash(1), c20mHash(2)
	hd0, hd1 := c20mHeader(0), c20mHeader(1)
	var id1, id2 bitcoin.Hash20
	id1[0], id2[0] = 1, 2
	return []MessagePayload{
		&SubscribePushData{PushDatas: [][]byte{{1, 2, 3}, {4, 5}}},
		&UnsubscribePushData{PushDatas: [][]byte{{1, 2, 3}}},
		&SubscribeTx{TxID: h1, Indexes: []uint32{0, 7}},
		&UnsubscribeTx{TxID: h1, Indexes: []uint32{3}},
		&SubscribeOutputs{Outputs: []*wire.OutPoint{wire.NewOutPoint(&h1, 0), wire.NewOutPoint(&h2, 5)}},
		&UnsubscribeOutputs{Outputs: []*wire.OutPoint{wire.NewOutPoint(&h1, 0)}},
		&SendTx{Tx: c20mTx(), Indexes: []uint32{0}},
		&ReprocessTx{TxID: h1, ClientIDs: []bitcoin.Hash20{id1, id2}},
		&BaseTx{Tx: c20mTx()},
		&Tx{ID: 3, Tx: c20mTx(), Outputs: []*wire.TxOut{wire.NewTxOut(2000, []byte{0x53})},
			State: TxState{Safe: true, UnconfirmedDepth: 2, MerkleProof: &MerkleProof{Index: 1, Path: []bitcoin.Hash32{h2}, BlockHeader: hd0, DuplicatedIndexes: []uint64{1}}}},
		&TxUpdate{ID: 4, TxID: h1, State: TxState{UnSafe: true, MerkleProof: &MerkleProof{Index: 2, Path: []bitcoin.Hash32{h1, h2}, BlockHeader: hd1}}},
		&Headers{RequestHeight: 5, StartHeight: 6, Headers: []*wire.BlockHeader{&hd0, &hd1}},
		&Header{Header: hd0, BlockHeight: 9, IsMostPOW: true},
		&FeeQuotes{FeeQuotes: merchant_api.FeeQuotes{
			{FeeType: merchant_api.FeeTypeStandard, MiningFee: merchant_api.Fee{Satoshis: 500, Bytes: 1000}, RelayFee: merchant_api.Fee{Satoshis: 250, Bytes: 1000}},
			{FeeType: merchant_api.FeeTypeData, MiningFee: merchant_api.Fee{Satoshis: 500, Bytes: 1000}, RelayFee: merchant_api.Fee{Satoshis: 250, Bytes: 1000}},
		}},
		&Accept{MessageType: MessageTypeSendTx, Hash: &h1},
		&Reject{MessageType: MessageTypeSendTx, Hash: &h1, Code: 2, Message: "no"},
		&ChainTip{Height: 7, Hash: h2},
		c20mRegister(),
		c20mAcceptRegister(),
	}
}

// a real secp256k1 public key (the generator) and a small well-formed signature
func c20mKey() bitcoin.PublicKey {
	b, _ := hex.DecodeString("0279be667ef9dcbbac55a06295ce870b07029bfcdb2dce28d959f2815b16f81798")
	var k bitcoin.PublicKey
	verifrt.Assume(k.SetBytes(b) == nil)
	return k
}

func c20mSignature() bitcoin.Signature {
	var s bitcoin.Signature
	s.R.SetBytes([]byte{0x11, 0x22})
	s.S.SetBytes([]byte{0x33})
	return s
}

func c20mRegister() MessagePayload {
	return &Register{Version: 1, Key: c20mKey(), Hash: c20mHash(3), StartBlockHeight: 5, ChainTip: c20mHash(4), Signature: c20mSignature()}
}

func c20mAcceptRegister() MessagePayload {
	return &AcceptRegister{Key: c20mKey(), PushDataCount: 1, UTXOCount: 2, MessageCount: 3, Signature: c20mSignature()}
}

func VerifHarness_C20_mutated() {
	ps := c20mPayloads()
	p := ps[verifrt.Choose("payload", len(ps))]
	var buf bytes.Buffer
	verifrt.Assume(p.Serialize(&buf) == nil)
	img := append([]byte(nil), buf.Bytes()...)
	w := 4
	if verifrt.Thorough() {
		w = []int{4, 6}[verifrt.Choose("window", 2)]
	}
	if len(img) < w {
		w = len(img)
	}
	off := verifrt.Choose("offset", len(img)-w+1)
	copy(img[off:], verifrt.Bytes("win", w))
	// second shape: the image ends after the window (a length field that promises more than there
	// is, an element cut short)
	if verifrt.Choose("cut-after-window", 2) == 1 {
		img = img[:off+w]
		verifrt.Reach("C20.mutated.cut")
	}
	verifrt.AllocObligation("C20.alloc.proportional-to-input", 1<<20, 64, len(img))
	fresh := PayloadForType(p.Type())
	var err error
	panicked, what := verifrt.Catch(func() {
		err = fresh.Deserialize(bytes.NewReader(img))
	})
	name := NameForMessageType(p.Type())
	verifrt.Note("%s len %d window [%d,%d): panic=%v %s err=%v", name, len(img), off, off+w, panicked, what, err)
	verifrt.Sig("panic in", verifrt.PanicSite(), what, "decoding", name)
	verifrt.Assert(!panicked, "C20.decode.no-panic")
	verifrt.Reach("C20.mutated.done")
}
