//verif:pkg pkg/client
package client

// C20 — client protocol decoders on arbitrary bytes: no panic, termination,
// and no allocation out of proportion to the input length.

import (
	"bytes"

	"github.com/tokenized/spynode/internal/verifrt"
)

var c20Types = []uint64{
	MessageTypeRegister, MessageTypeSubscribePushData, MessageTypeUnsubscribePushData,
	MessageTypeSubscribeTx, MessageTypeUnsubscribeTx, MessageTypeSubscribeOutputs,
	MessageTypeUnsubscribeOutputs, MessageTypeSubscribeHeaders, MessageTypeUnsubscribeHeaders,
	MessageTypeSubscribeContracts, MessageTypeUnsubscribeContracts, MessageTypeReady,
	MessageTypeGetChainTip, MessageTypeGetHeaders, MessageTypeSendTx, MessageTypeSendExpandedTx,
	MessageTypeSaveTxs, MessageTypeGetTx,
	MessageTypeGetHeader, MessageTypeGetFeeQuotes, MessageTypePostMerkleProofs,
	MessageTypeReprocessTx, MessageTypeMarkHeaderInvalid, MessageTypeMarkHeaderNotInvalid,
	MessageTypeAcceptRegister, MessageTypeBaseTx, MessageTypeTx, MessageTypeTxUpdate,
	MessageTypeInSync, MessageTypeChainTip, MessageTypeHeaders, MessageTypeHeader,
	MessageTypeFeeQuotes, MessageTypeAccept, MessageTypeReject, MessageTypePing, MessageTypePong,
}

func c20Lens() []int {
	if verifrt.Thorough() {
		return []int{0, 1, 2, 3, 5, 9, 12}
	}
	return []int{0, 1, 3, 9}
}

// VerifHarness_C20_client decodes L symbolic bytes as the payload of every
// message type (the bsor bodies of SendExpandedTx / SaveTxs are opaque: the decode of the
// length-prefixed body either fails or succeeds without interpreting the bytes).
func VerifHarness_C20_client() {
	t := c20Types[verifrt.Choose("type", len(c20Types))]
	lens := c20Lens()
	n := lens[verifrt.Choose("len", len(lens))]
	data := verifrt.Bytes("in", n)
	verifrt.AllocObligation("C20.alloc.proportional-to-input", 1<<20, 64, n)
	payload := PayloadForType(t)
	verifrt.Assert(payload != nil, "C20.type-has-payload")
	var err error
	panicked, what := verifrt.Catch(func() {
		err = payload.Deserialize(bytes.NewReader(data))
	})
	verifrt.Note("type %d (%s) len %d: panic=%v %s err=%v", t, NameForMessageType(t), n, panicked, what, err)
	verifrt.Sig("panic in", verifrt.PanicSite(), what, "decoding", NameForMessageType(t))
	verifrt.Assert(!panicked, "C20.decode.no-panic")
	verifrt.Reach("C20.client.done")
}
