//verif:pkg internal/storage
//verif:kit memstore
package storage

// C20 — stored-record parsers on a VALID image with a symbolic window.
//
// The fully symbolic buffers of VerifHarness_C20_records are short; count fields that sit behind
// an 80-byte header or behind earlier list items are out of their reach. Here the real writers
// produce a valid image of each record kind, a window of w consecutive bytes at a chosen offset
// is replaced by solver variables (every offset), and the real loader runs on the result.

import (
	"context"

	"github.com/tokenized/pkg/bitcoin"
	"github.com/tokenized/pkg/wire"
	"github.com/tokenized/spynode/internal/platform/config"
	"github.com/tokenized/spynode/pkg/client"

	"github.com/tokenized/spynode/internal/verifrt"
)

func c20Hash(b byte) bitcoin.Hash32 {
	var h bitcoin.Hash32
	for i := range h {
		h[i] = b + byte(i)
	}
	return h
}

func c20Header(i int, prev bitcoin.Hash32) wire.BlockHeader {
	return wire.BlockHeader{Version: 1, PrevBlock: prev, MerkleRoot: c20Hash(byte(0x40 + i)), Timestamp: uint32(1600000000 + 600*i), Bits: 0x1d00ffff, Nonce: uint32(i)}
}

// c20ValidImage drives the real writers and returns the key and bytes of one valid record.
func c20ValidImage(ctx context.Context, kind int, store *vkStore) (string, []byte) {
	var key string
	switch kind {
	case 0: // peers
		repo := NewPeerRepository(store)
		repo.Add(ctx, "10.0.0.1:8333")
		repo.Add(ctx, "10.0.0.2:8333")
		repo.UpdateScore(ctx, "10.0.0.2:8333", 5)
		verifrt.Assume(repo.Save(ctx) == nil)
		key = peersPath
	case 1, 2: // reorg (active / listed)
		repo := NewReorgRepository(store)
		h0 := c20Header(0, bitcoin.Hash32{})
		h1 := c20Header(1, *h0.BlockHash())
		reorg := &Reorg{BlockHeight: 7, Blocks: []ReorgBlock{
			{Header: h0, TxIds: []bitcoin.Hash32{c20Hash(1)}},
			{Header: h1, TxIds: []bitcoin.Hash32{c20Hash(2), c20Hash(3)}},
		}}
		verifrt.Assume(repo.Save(ctx, reorg) == nil)
		if kind == 1 {
			key = repo.buildActivePath()
		} else {
			key = repo.buildPath(reorg)
		}
	case 3: // unconfirmed txs
		repo := NewTxRepository(store)
		repo.Add(ctx, c20Hash(1), true, false, -1)
		repo.Add(ctx, c20Hash(2), false, true, -1)
		verifrt.Assume(repo.Save(ctx) == nil)
		key = unconfirmedPath
	case 4: // per-height tx file
		repo := NewTxRepository(store)
		verifrt.Assume(repo.SetBlock(ctx, []bitcoin.Hash32{c20Hash(1), c20Hash(2), c20Hash(3)}, 7) == nil)
		key = repo.buildPath(7)
	case 5: // block header file
		repo := NewBlockRepository(config.Config{Net: bitcoin.MainNet}, store)
		prev := bitcoin.Hash32{}
		for i := 0; i < 3; i++ {
			h := c20Header(i, prev)
			verifrt.Assume(repo.Add(ctx, &h) == nil)
			prev = *h.BlockHash()
		}
		verifrt.Assume(repo.Save(ctx) == nil)
		key = repo.buildPath(0)
	case 6: // tx state
		tx := wire.NewMsgTx(1)
		tx.AddTxIn(wire.NewTxIn(wire.NewOutPoint(&bitcoin.Hash32{9}, 1), []byte{0x51}))
		tx.AddTxOut(wire.NewTxOut(1000, []byte{0x51, 0x52}))
		h0 := c20Header(0, bitcoin.Hash32{})
		bh := *h0.BlockHash()
		ctxn := &client.Tx{ID: 3, Tx: tx,
			Outputs: []*wire.TxOut{wire.NewTxOut(2000, []byte{0x53})},
			State:   client.TxState{Safe: true, UnconfirmedDepth: 2, MerkleProof: &client.MerkleProof{Index: 1, Path: []bitcoin.Hash32{c20Hash(5)}, BlockHeader: h0, DuplicatedIndexes: []uint64{1}}}}
		_ = bh
		verifrt.Assume(SaveTxState(ctx, store, ctxn) == nil)
		key = txStatePath + "/" + tx.TxHash().String()
	}
	b, err := store.Read(ctx, key)
	verifrt.Assume(err == nil)
	return key, append([]byte(nil), b...)
}

var c20StructNames = []string{"peers", "active-reorg", "reorg-list", "unconfirmed", "tx-block", "block-headers", "tx-state"}

func VerifHarness_C20_structured() {
	ctx := context.Background()
	kind := verifrt.Choose("record", len(c20StructNames))
	store := newVkStore()
	key, img := c20ValidImage(ctx, kind, store)
	w := 4
	if verifrt.Thorough() {
		w = []int{4, 6}[verifrt.Choose("window", 2)]
	}
	if len(img) < w {
		w = len(img)
	}
	off := verifrt.Choose("offset", len(img)-w+1)
	sym := verifrt.Bytes("win", w)
	copy(img[off:], sym)
	store.Write(ctx, key, img, nil)
	verifrt.AllocObligation("C20.alloc.proportional-to-input", 1<<20, 64, len(img))
	var err error
	panicked, what := verifrt.Catch(func() {
		switch kind {
		case 0:
			err = NewPeerRepository(store).Load(ctx)
		case 1:
			_, err = NewReorgRepository(store).GetActive(ctx)
		case 2:
			_, err = NewReorgRepository(store).List(ctx)
		case 3:
			err = NewTxRepository(store).Load(ctx)
		case 4:
			_, err = NewTxRepository(store).GetBlock(ctx, 7)
		case 5:
			err = NewBlockRepository(config.Config{Net: bitcoin.MainNet}, store).Load(ctx)
		case 6:
			var txid bitcoin.Hash32
			h, _ := bitcoin.NewHash32FromStr(key[len(txStatePath)+1:])
			txid = *h
			_, err = FetchTxState(ctx, store, txid)
		}
	})
	verifrt.Note("record %s len %d window [%d,%d): panic=%v %s err=%v", c20StructNames[kind], len(img), off, off+w, panicked, what, err)
	verifrt.Sig("panic in", verifrt.PanicSite(), what, "decoding", c20StructNames[kind])
	verifrt.Assert(!panicked, "C20.decode.no-panic")
	verifrt.Reach("C20.structured.done")
}
