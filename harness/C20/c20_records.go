//verif:pkg internal/storage
//verif:kit memstore
package storage

// C20 — stored-record parsers on arbitrary bytes.

import (
	"context"

	"github.com/tokenized/pkg/bitcoin"
	"github.com/tokenized/spynode/internal/platform/config"

	"github.com/tokenized/spynode/internal/verifrt"
)

func VerifHarness_C20_records() {
	ctx := context.Background()
	lens := []int{0, 1, 4, 8, 12, 13}
	if verifrt.Thorough() {
		lens = []int{0, 1, 2, 4, 5, 8, 9, 12, 13, 16}
	}
	kind := verifrt.Choose("record", 9)
	n := lens[verifrt.Choose("len", len(lens))]
	data := verifrt.Bytes("in", n)
	verifrt.AllocObligation("C20.alloc.proportional-to-input", 1<<20, 64, n)
	store := newVkStore()
	names := []string{"peers", "active-reorg", "reorg-list", "unconfirmed", "tx-block", "block-headers", "tx-block-add", "tx-block-remove", "tx-block-contains"}
	var probe bitcoin.Hash32
	probe[0] = 0x77
	var err error
	panicked, what := verifrt.Catch(func() {
		switch kind {
		case 0:
			store.Write(ctx, peersPath, data, nil)
			repo := NewPeerRepository(store)
			err = repo.Load(ctx)
		case 1:
			store.Write(ctx, "spynode/reorgs/active", data, nil)
			repo := NewReorgRepository(store)
			_, err = repo.GetActive(ctx)
		case 2:
			store.Write(ctx, "spynode/reorgs/0011", data, nil)
			repo := NewReorgRepository(store)
			_, err = repo.List(ctx)
		case 3:
			store.Write(ctx, unconfirmedPath, data, nil)
			repo := NewTxRepository(store)
			err = repo.Load(ctx)
		case 4:
			repo := NewTxRepository(store)
			store.Write(ctx, repo.buildPath(7), data, nil)
			_, err = repo.GetBlock(ctx, 7)
		case 6, 7, 8: // the walkers of the per-height tx id file
			repo := NewTxRepository(store)
			store.Write(ctx, repo.buildPath(7), data, nil)
			switch kind {
			case 6:
				_, _, err = repo.Add(ctx, probe, true, true, 7)
			case 7:
				_, err = repo.Remove(ctx, probe, 7)
			case 8:
				_, err = repo.Contains(ctx, probe, 7)
			}
		case 5:
			store.Write(ctx, "spynode/blocks/00000000", data, nil)
			repo := NewBlockRepository(config.Config{Net: bitcoin.MainNet}, store)
			err = repo.Load(ctx)
		}
	})
	verifrt.Note("record %s len %d: panic=%v %s err=%v", names[kind], n, panicked, what, err)
	verifrt.Sig("panic in", verifrt.PanicSite(), what, "decoding", names[kind])
	verifrt.Assert(!panicked, "C20.decode.no-panic")
	verifrt.Reach("C20.records.done")
}
