#!/bin/sh
# tools/seedall.sh <worktree-base> [seed-id ...]
# Regression of the seeded changes against scratch worktrees (<worktree-base>/<property>, one git
# worktree of /repo per property, created on demand and brought to /repo's HEAD), through
# tools/seedtry.sh (VERIF_REPO runs: /repo itself is not touched, no evidence is written).
# Runs every check named in the seed's meta.json.  One line per seed in out/seedall.log (or $SEEDALL_LOG):
# CAUGHT / MISSED / INCONCLUSIVE.
export GOFLAGS=-mod=mod GOPROXY=off GOSUMDB=off GOTOOLCHAIN=local
base="$1"; shift
cd /verif || exit 2
H=$(git -C /repo rev-parse HEAD)
seeds="$*"
[ -z "$seeds" ] && seeds=$(cd seeded && ls -d */ | tr -d /)
LOG=${SEEDALL_LOG:-out/seedall.log}
: > "$LOG"
for sid in $seeds; do
  prop=$(python3 -c "import json;print(json.load(open('seeded/$sid/meta.json'))['property'])")
  pkg=$(python3 -c "import json,re;print(re.search(r'belongs in (.*)/\)',json.load(open('seeded/$sid/meta.json'))['demonstration']).group(1))")
  wt="$base/$prop"
  if [ ! -d "$wt" ]; then git -C /repo worktree add -q --detach "$wt" "$H" || exit 2; fi
  git -C "$wt" checkout -q -- . ; git -C "$wt" clean -fdq; git -C "$wt" checkout -q --detach "$H"
  checks=$(python3 -c "import json,re;print(' '.join(re.findall(r'check (C[0-9]+) ',' '.join(json.load(open('seeded/$sid/meta.json'))['checks_run']))))")
  sh tools/seedtry.sh "/verif/seeded/$sid" "$wt" "$pkg" $checks > "out/seedall_$sid.log" 2>&1
  if grep -q "does not apply\|does not build\|suite FAILS\|demo PASSES with\|demo FAILS without" "out/seedall_$sid.log"; then v="INCONCLUSIVE($(grep -o 'does not apply\|does not build\|suite FAILS\|demo PASSES with\|demo FAILS without' out/seedall_$sid.log | head -1))";
  elif grep -q "^TRY C[0-9]* rc=1" "out/seedall_$sid.log"; then v=CAUGHT;
  elif grep -q "^TRY C[0-9]* rc=2" "out/seedall_$sid.log"; then v="INCONCLUSIVE(rc2)";
  elif grep -q "^TRY C[0-9]* rc=0" "out/seedall_$sid.log"; then v=MISSED;
  else v="INCONCLUSIVE(rc)"; fi
  echo "$sid $v $(grep '^TRY' out/seedall_$sid.log | cut -c1-220 | tr '\n' ' ')" >> "$LOG"
done
echo "seedall done" >> "$LOG"
