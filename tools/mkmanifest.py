#!/usr/bin/env python3
"""Regenerates /verif/MANIFEST.json from harness/*/meta.json and tools/manifest_extra.json."""
import json, os, glob
root = os.path.dirname(os.path.dirname(os.path.abspath(__file__)))
extra = json.load(open(os.path.join(root, "tools/manifest_extra.json")))
props = [json.loads(l)["id"] for l in open(os.path.join(root, "properties.jsonl"))]
checks = []
claimed = set()
for pid in props:
    mp = os.path.join(root, "harness", pid, "meta.json")
    if not os.path.exists(mp):
        continue
    m = json.load(open(mp))
    if m.get("unclaimed"):
        continue
    claimed.add(pid)
    c = {
        "property_id": pid,
        "quick_cmd": "./check %s quick" % pid,
        "thorough_cmd": "./check %s thorough" % pid,
        "evidence_file": "/verif/evidence/%s.json" % pid,
        "replay_cmd_template": "./check --replay {path}",
        "engine": "gosym",
        "level_claimed": {
            "category": m["level"],
            "text": m.get("level_text") or m["explanation"],
            "design_ref": m.get("design_ref", "DESIGN.md §4 " + pid),
        },
        "level_note": "; ".join(m.get("assumptions", [])),
        "technique": m.get("technique", "bounded symbolic execution of the real go/ssa code, SMT-decided (z3/cvc5), counterexamples replayed natively"),
    }
    checks.append(c)
na = []
for pid in props:
    if pid in claimed:
        continue
    na.append({"property_id": pid, "reason": extra["not_applicable"].get(pid, "no solver-based check built for this property in the time available")})
man = {
    "version": 1,
    "setup_cmd": "./setup.sh",
    "hooks": {
        "guard": "verif",
        "enable": "no source hooks: harnesses, kit and runtime enter /repo only through go/packages and go test -overlay files regenerated on every run",
        "baseline_off_cmd": extra["baseline_off_cmd"],
        "source_commits": [],
        "add_only": True,
    },
    "engines": [{
        "name": "gosym",
        "path": "/verif/engine",
        "serves_properties": sorted(claimed),
        "kind_free_text": "symbolic interpreter for go/ssa (fork of x/tools ssa/interp) with SMT terms for scalars, decision-trace path exploration, z3 -in with cvc5/z3-new fallback, native replay through go test -overlay",
    }],
    "checks": checks,
    "not_applicable": na,
    "notes": extra.get("notes", ""),
}
json.dump(man, open(os.path.join(root, "MANIFEST.json"), "w"), indent=1)
print("claimed:", sorted(claimed))
