#!/bin/sh
# tools/seedcheck.sh <seed-dir> <worktree> <pkgdir-of-demo> <check-ids...>
# 1. confirms in the scratch worktree that the seeded change compiles, passes the pinned suite,
#    and that the demonstration fails with it and passes without it;
# 2. applies the patch to /repo, runs the given checks (quick), restores /repo.
export GOFLAGS=-mod=mod GOPROXY=off GOSUMDB=off GOTOOLCHAIN=local
seed="$1"; wt="$2"; pkg="$3"; shift 3
set -u
cd "$wt" || exit 2
git checkout -q -- . ; rm -f "$pkg/zz_demo_test.go"
git apply "$seed/patch.diff" || { echo "SEED: patch does not apply"; exit 2; }
go build ./... || { echo "SEED: does not build"; exit 2; }
if go test -vet=off -count=1 ./... > /tmp/seed_suite.log 2>&1; then echo "SEED: pinned suite passes with the change"; else echo "SEED: pinned suite FAILS with the change"; tail -5 /tmp/seed_suite.log; fi
cp "$seed/zz_demo_test.go" "$pkg/zz_demo_test.go"
if go test -vet=off -count=1 -run 'Demo' "./$pkg/" > /tmp/seed_demo1.log 2>&1; then echo "SEED: demo PASSES with the change (bad)"; else echo "SEED: demo fails with the change (good)"; fi
git apply -R "$seed/patch.diff"
if go test -vet=off -count=1 -run 'Demo' "./$pkg/" > /tmp/seed_demo0.log 2>&1; then echo "SEED: demo passes without the change (good)"; else echo "SEED: demo FAILS without the change (bad)"; tail -5 /tmp/seed_demo0.log; fi
rm -f "$pkg/zz_demo_test.go"; git checkout -q -- .
cd /verif
git -C /repo apply "$seed/patch.diff" || { echo "SEED: patch does not apply to /repo"; exit 2; }
for id in "$@"; do
  ./check "$id" quick > "out/seed_$id.log" 2>&1; rc=$?
  echo "CHECK $id rc=$rc: $(grep -c '^VIOLATION' out/seed_$id.log) violation line(s); $(grep '^VIOLATION' -A1 out/seed_$id.log | grep harness | head -3 | tr '\n' ';' | cut -c1-300)"
  [ $rc -eq 2 ] && grep "ENGINE-FAILURE" out/seed_$id.log | head -3 | cut -c1-300
done
git -C /repo checkout -- .
git -C /repo status --short | head -3
