#!/bin/sh
# tools/seedtry.sh <seed-dir> <worktree> <pkgdir-of-demo> <check-ids...>
# Like seedcheck.sh, but the checks run against the scratch worktree itself (VERIF_REPO) instead
# of patching /repo: for trying a seeded change while other runs are reading /repo.  Writes no
# evidence.  The confirmation of record is seedcheck.sh (git -C /repo apply ... / checkout).
export GOFLAGS=-mod=mod GOPROXY=off GOSUMDB=off GOTOOLCHAIN=local
seed="$1"; wt="$2"; pkg="$3"; shift 3
set -u
cd "$wt" || exit 2
git checkout -q -- . ; rm -f "$pkg/zz_demo_test.go"
git apply "$seed/patch.diff" || { echo "SEED: patch does not apply"; exit 2; }
go build ./... || { echo "SEED: does not build"; exit 2; }
if go test -vet=off -count=1 ./... > /tmp/seedtry_suite.log 2>&1; then echo "SEED: pinned suite passes with the change"; else echo "SEED: pinned suite FAILS with the change"; tail -5 /tmp/seedtry_suite.log; fi
cp "$seed/zz_demo_test.go" "$pkg/zz_demo_test.go"
if go test -vet=off -count=1 -run 'Demo' "./$pkg/" > /tmp/seedtry_demo1.log 2>&1; then echo "SEED: demo PASSES with the change (bad)"; else echo "SEED: demo fails with the change (good)"; fi
git apply -R "$seed/patch.diff"
if go test -vet=off -count=1 -run 'Demo' "./$pkg/" > /tmp/seedtry_demo0.log 2>&1; then echo "SEED: demo passes without the change (good)"; else echo "SEED: demo FAILS without the change (bad)"; tail -5 /tmp/seedtry_demo0.log; fi
rm -f "$pkg/zz_demo_test.go"
git apply "$seed/patch.diff"
cd /verif
for id in "$@"; do
  VERIF_REPO="$wt" ${GOSYM:-bin/gosym} check "$id" --tier quick > "out/try_$id.log" 2>&1; rc=$?
  echo "TRY $id rc=$rc: $(grep -c '^VIOLATION' out/try_$id.log) violation line(s); $(grep '^VIOLATION' -A1 out/try_$id.log | grep harness | head -3 | tr '\n' ';' | cut -c1-300)"
  [ $rc -eq 2 ] && grep "ENGINE-FAILURE\|error" out/try_$id.log | head -3 | cut -c1-300
done
git -C "$wt" checkout -q -- .
