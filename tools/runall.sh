#!/bin/sh
# ./tools/runall.sh [quick|thorough] [ids...]  — runs every registered check (or the given ones, in that order) in sequence and prints one line each
cd "$(dirname "$0")/.."
tier="${1:-quick}"
[ $# -gt 0 ] && shift
ids="$*"
[ -z "$ids" ] && ids=$(python3 -c "import json;print(' '.join(c['property_id'] for c in json.load(open('MANIFEST.json'))['checks']))")
for p in $ids; do
  s=$(date +%s)
  ./check $p $tier > out/run_$p.log 2>&1
  rc=$?
  e=$(date +%s)
  echo "$p rc=$rc $((e-s))s $(tail -1 out/run_$p.log | cut -c1-160)"
done
