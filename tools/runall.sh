#!/bin/sh
# ./tools/runall.sh [quick|thorough]  — runs every registered check in sequence and prints one line each
cd "$(dirname "$0")/.."
tier="${1:-quick}"
for p in $(python3 -c "import json;print(' '.join(c['property_id'] for c in json.load(open('MANIFEST.json'))['checks']))"); do
  s=$(date +%s)
  ./check $p $tier > out/run_$p.log 2>&1
  rc=$?
  e=$(date +%s)
  echo "$p rc=$rc $((e-s))s $(tail -1 out/run_$p.log | cut -c1-160)"
done
